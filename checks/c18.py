"""C18 - reverse-engineering a rectangular geometry inverts grid generation."""
from checks import generic


class _NoContracts(object):
    __name__ = 'contracts.none'


def main(tier):
    from contracts import c04
    # shared leaves only: the forward block functions rectgeo inverts (C04 contracts)
    progs = [('p_block_functions', (i, 2)) for i in (1, 2, 3)] + [('p_column_volume', None)]
    return generic.run('C18', 'other', tier, c04, progs, ['mulgrids.mulgrid.block_surface', 'mulgrids.mulgrid.block_volume', 'mulgrids.mulgrid.block_centre', 't2grids.t2grid.rectgeo'],
        'c18_rectgeo.py', 'fromgeo_rectgeo_fromgeo',
        'rectangular geometries 1..12 x 1..12 x 2..14 with random positive spacings (at most one horizontal direction single), random origin and rotation, atmosphere types 0/1/2, flat / stepped / sloping / above-top surfaces, '
        '4 naming conventions, with and without inactive boundary blocks; g -> fromgeo -> rectgeo -> (g\', map) -> fromgeo(g\', map) compared for spacings, position, surfaces, atmosphere, names, volumes, connections; '
        'repeated after extra-precision and standard data-file round trips',
        trust=('the forward contracts of C04 (block top / volume / centre) that rectgeo inverts',),
        assume=('rectgeo walks the connection graph with numpy nan-reductions, set iteration and trigonometry: outside the executor subset; the property is decided by the bounded round trip',),
        explanation='bounded-dominant: only the forward leaves shared with C04 are proved (block top, volume, centre, telescoping column volume - the quantities rectgeo inverts). The inversion itself is checked on 400 (quick) / 4000 (thorough) '
                    'generated rectangular geometries per run, in memory and after data-file round trips. 4 known findings (single block in x, one-layer columns, side boundary blocks, top layer not reached).')
