"""C18 - reverse-engineering a rectangular geometry inverts grid generation."""
from checks import generic


class _NoContracts(object):
    __name__ = 'contracts.none'


def main(tier):
    from contracts import c04, c18
    # shared leaves only: the forward block functions rectgeo inverts (C04 contracts)
    progs = [('p_block_functions', (i, 2)) for i in (1, 2, 3)] + [('p_column_volume', None)]
    return generic.run('C18', 'other', tier, c04, progs, ['mulgrids.mulgrid.block_surface', 'mulgrids.mulgrid.block_volume', 'mulgrids.mulgrid.block_centre'] + c18.FUNCS,
        'c18_rectgeo.py', 'fromgeo_rectgeo_fromgeo',
        'rectangular geometries 1..12 x 1..12 x 2..14 with random positive spacings (at most one horizontal direction single), random origin and rotation, atmosphere types 0/1/2, flat / stepped / sloping / above-top surfaces, '
        '4 naming conventions, with and without inactive boundary blocks; g -> fromgeo -> rectgeo -> (g\', map) -> fromgeo(g\', map) compared for spacings, position, surfaces, atmosphere, names, volumes, connections; '
        'repeated after extra-precision and standard data-file round trips',
        trust=('the forward contracts of C04 (block top / volume / centre) that rectgeo inverts', 'pyvc heap model of the real geometry and grid; numpy nanargmin / nanargmax: an index of an extremal non-NaN element; sets of objects iterate in creation order', 'z3'),
        assume=('the original geometry is rotated by a multiple of 90 degrees (0, 90, 180, 270) about a symbolic centre, with its permeability angle turned with it: asin(0), asin(1), sin and cos are exact there (pi is one real constant); other angles are bounded',
                'whole-method obligations: 14 instances (2x1x2 .. 3x2x2, 3 atmosphere types, 4 conventions, 0 or 1 symbolic surface keeping at least two layers, 3 of them rotated, 3 with inactive boundary blocks attached through the real add_block / add_connection: a zero-volume or a huge-volume block on top of every column, one shared huge-volume block under the bottom layer) with symbolic spacings between layer_snap = 0.1 and 1e6, atmosphere volume >= 1e25; a one-layer column and a single block in the x direction reproduce two known findings',),
        extra=[(c18, c18.programs(tier))],
        explanation='clause -> evidence: the real t2grid.rectgeo (spacing walks, origin and top-block search, block map, surface recovery, layer snapping) run by the executor on the grid fromgeo() builds from a real rectangular geometry with symbolic origin returns the same layer thicknesses, the same column rectangles and areas, the same surface elevations, the requested atmosphere arrangement and a block-name map under which fromgeo() of the reconstructed geometry reproduces block names, volumes and connection areas / distances: and the same position (every column on the corner points of the original column, top elevation) and orientation (angle 0, -90, -180, -270 modulo 360): PROVED for all origins, spacings and surfaces of the instances under assume. The forward leaves shared with C04 are proved (block top, volume, centre, telescoping column volume). With top / bottom boundary blocks attached the same clauses hold and the regenerated grid equals the grid without them. The inversion of geometries rotated by other angles, larger grids, side boundary blocks and data-file round trips is checked on 400 (quick) / 4000 (thorough) '
                    'generated rectangular geometries per run, in memory and after data-file round trips. 4 known findings (single block in x, one-layer columns, side boundary blocks, top layer not reached).')
