"""C15 - IFC-67 routines agree with IAPWS-97 and with themselves on their common range."""
from vlib.check import Check, run_programs, absorb, run_bounded_script, REPO
from contracts import c15
from checks.c17 import bounded_to_check

LEVEL = 'other'


def main(tier):
    chk = Check('C15', LEVEL, tier)
    for q in c15.FUNCS:
        chk.function_under_contract(q)
    progs = c15.PROGRAMS_QUICK if tier == 'quick' else c15.PROGRAMS_THOROUGH
    res = run_programs('contracts.c15', progs, timeout_ms=30000 if tier == 'quick' else 120000)
    absorb(chk, res, c15.replay, prefix='C15/')
    b = run_bounded_script('c15_grid.py', [tier, chk.seed], timeout=600 if tier == 'quick' else 3000)
    b['cmd'] = 'PYTOUGH_REPO=%s /venv/bin/python bounded/c15_grid.py %s %s' % (REPO, tier, chk.seed)
    bounded_to_check(chk, 'C15/bounded:grids', b,
                     'liquid grid 0.01..350 C x psat..100 MPa and steam grid 0.01..800 C below saturation / b23 / 100 MPa against IAPWS-97 '
                     '(envelope 0.6 % density, 10 kJ/kg energy outside a box around the critical point; 0.1 % saturation pressure), tsat(sat(t)) with and '
                     'without range checking along the whole saturation line, range checking one ulp / 1e-9 on both sides of every limit, region '
                     'classifiers on random states away from the curves, steam fraction over h in [0,3.5e6] x P in [0.1,5] MPa, 1 and 2 stages; distinct = clause groups')
    chk.trust('A1: floats as reals, literals decimal', 'symx source transformation + differential-algebra generators for sqrt, exp, x**(5/17) (symx/gens.py)',
              'sympy polynomial normal form and remainder modulo s**2 == e', 'pyvc executor; z3',
              'in the bounds-flag programs: sat and b23p uninterpreted (>= 611 Pa), exp / non-integer powers / fsolve uninterpreted, symbolic denominators assumed non-zero')
    chk.assume('agreement with IAPWS-97 "to within the known difference" has no exact form: it is a bounded comparison against a stated envelope',
               'cowat with range checking returns a value inside its range iff the square-root argument is non-negative there: bounded grid',
               'steam enthalpy above liquid enthalpy at a separator pressure (requires-clause of the monotonicity obligation): bounded')
    chk.explanation = ('clause -> evidence: single-potential (Maxwell) identity of cowat and supst: PROVED exactly on the real bodies (residual 0). Range checking: '
                       'no value outside / value only inside the stated range for cowat, supst (exactly), sat, tsat: PROVED as path contracts with sat, b23p uninterpreted. '
                       'Region classifiers agree off the curves below 350 C and above Tc: PROVED with shared uninterpreted curves. Steam fraction in [0,1] and non-decreasing: '
                       'PROVED given hs > hl. Differences to IAPWS-97, tsat inverse of sat (scipy fsolve), value-inside-range for cowat: BOUNDED grids.')
    return chk.finish()
