"""C04 - geometry-to-TOUGH2-grid conversion is geometrically exact and index-consistent."""
import os
from vlib.check import Check, run_programs, absorb, run_bounded_script, REPO, VERIF
from contracts import c04
from checks.c17 import bounded_to_check

LEVEL = 'other'


def main(tier):
    chk = Check('C04', LEVEL, tier)
    for q in c04.FUNCS:
        chk.function_under_contract(q)
    res = run_programs('contracts.c04', c04.programs(tier), timeout_ms=30000 if tier == 'quick' else 120000)
    absorb(chk, res, c04.replay, prefix='C04/')
    if os.path.exists(os.path.join(VERIF, 'bounded', 'c04_fromgeo.py')):
        b = run_bounded_script('c04_fromgeo.py', [tier, chk.seed], timeout=900 if tier == 'quick' else 3400)
        b['cmd'] = 'PYTOUGH_REPO=%s /venv/bin/python bounded/c04_fromgeo.py %s %s' % (REPO, tier, chk.seed)
        bounded_to_check(chk, 'C04/bounded:fromgeo_vs_geometric_oracle', b,
                         'fromgeo() of rectangular (random spacings/origins), shipped irregular and refined/rotated geometries x atmosphere types x '
                         'conventions x block orders x surfaces from below the bottom layer to above the top, with/without block map, compared with an '
                         'independent geometric oracle; distinct = distinct geometry configurations')
    chk.trust('A1: floats as mathematical reals', 'pyvc record model of layer/column/connection/node/t2grid objects (fields as in the real classes; properties resolved from the class bodies)',
              'math.sqrt / numpy norm as y >= 0 with y*y == x', 'cos(0) = 1, sin(0) = 0 (untilted permeability angle) in the horizontal-connection program', 'z3 (QF_NRA)')
    chk.assume('requires of every contract: layers stacked (top of each = bottom of the one above), bottom < centre < top, column area > 0, the two nodes of a connection distinct',
               'record model with 3 underground layers: layer 1 (top), an interior layer and the bottom layer cover the code\'s case distinctions',
               'whole-geometry obligations: real mulgrid.rectangular() + t2grid.fromgeo() run by the executor for 7 (nx, ny, nz, atmosphere type, convention, number of symbolic column surfaces) shapes with '
               'symbolic spacings, origin (all three coordinates), surfaces anywhere above the model bottom, atmosphere volume and connection distance',
               'irregular geometries: a real rectangular geometry refined on a column subset by the real refine() (quadrilaterals and triangles, symbolic vertex coordinates), 2 instances quick / 5 thorough; horizontal areas and perpendicular distances are stated through their squares',
               'shipped irregular meshes, other sizes, tilted geometries, permeability angles, block maps: bounded')
    chk.explanation = ('clause -> evidence: block top / volume / centre formulas incl. truncated and above-grid surface blocks: PROVED (all surface positions, 3 layer positions x 3 atmosphere types); '
                       'column volumes telescope to area x depth: PROVED; horizontal area = edge length x lower height, distances = perpendicular distances: PROVED; '
                       'vertical connections: column area, cosine -1, lower block first, distances add to centre separation / surface distance + atmosphere connection: PROVED on the real '
                       'add_vertical_layer_connections; horizontal cosine = -dz/|d| (0 iff equal elevation): PROVED; untilted tilt vector (0,0,-1), unit length when tilted: PROVED; '
                       'shoelace area n=3..6: PROVED. Whole grid from a real rectangular geometry (constructor and fromgeo run by the executor): blocks and connections are the announced ones in order, every block volume / centre, '
                       'total rock volume = sum of area x depth to surface, every horizontal / vertical / atmosphere connection per the statement: PROVED for the 7 shapes listed under assume, all spacings and surfaces. '
                       'Whole grid from a refined (irregular) geometry: announced blocks and connections, volumes, total rock volume, vertical and atmosphere connections exactly, horizontal area^2 = |edge|^2 x (lower height)^2 and distance^2 x |edge|^2 = cross(edge, centre - node)^2: PROVED for the instances under assume. '
                       'Shipped irregular meshes, block maps, other sizes: BOUNDED.')
    return chk.finish()
