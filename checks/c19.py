"""C19 - transfers between geometries are total, nearest-based, identity on equal grids."""
from checks import generic
from contracts import c19


def main(tier):
    return generic.run('C19', 'other', tier, c19, c19.PROGRAMS, c19.FUNCS, 'c19_transfer.py', 'mapping_and_transfer_vs_nearest_oracle',
        'pairs of geometries (coarse / fine rectangular, refinement, layer refinement, shifted, differently surfaced, rotated, shipped geometries) x 3x3 atmosphere types x conventions x 1..4 primary variables; '
        'block_mapping / layer_mapping against a brute-force nearest-centre oracle (ties never decide), self-identity, t2incon.transfer_from (exact states, atmosphere table, source unaltered), '
        't2data.transfer_from onto identical and refined geometries (generators, totals)',
        trust=('pyvc record model of two geometries with symbolic layer elevations and column surface', 'numpy argmin: an index of a minimal element', 'z3'),
        assume=('column mapping uses scipy cKDTree (external): compared with brute force in the bounded tier', 'transfer of incons / generators: bounded'),
        explanation='clause -> evidence: layer_mapping maps every target layer to a source layer with minimal centre distance, never the atmosphere layer, surface to surface; block_mapping gives an underground target block a block that '
                    'exists in the source (the nearest layer, moved down to the column\'s first layer below ground when that block would be above the surface); a geometry maps onto itself by the identity: PROVED on the real methods with '
                    'symbolic elevations (column mapping as an uninterpreted total function). Nearest column on real meshes, incon and model transfers, atmosphere table: BOUNDED. 1 known finding (single target atmosphere block with a source that has none / one per column).')
