"""C19 - transfers between geometries are total, nearest-based, identity on equal grids."""
from checks import generic
from contracts import c19, c19b


def main(tier):
    return generic.run('C19', 'other', tier, c19, c19.programs(tier), c19.FUNCS + c19b.FUNCS, 'c19_transfer.py', 'mapping_and_transfer_vs_nearest_oracle',
        'pairs of geometries (coarse / fine rectangular, refinement, layer refinement, shifted, differently surfaced, rotated, shipped geometries) x 3x3 atmosphere types x conventions x 1..4 primary variables; '
        'block_mapping / layer_mapping against a brute-force nearest-centre oracle (ties never decide), self-identity, t2incon.transfer_from (exact states, atmosphere table, source unaltered), '
        't2data.transfer_from onto identical and refined geometries (generators, totals)',
        trust=('pyvc record model of two geometries with symbolic layer elevations and column surface; pyvc heap model of two real rectangular geometries built by the real constructor', 'numpy argmin: an index of a minimal element',
               'scipy.spatial.cKDTree (external): query(p) returns (distance, index) of a nearest stored point, the first among ties - assumed, compared with brute force in the bounded tier', 'z3 (QF_NRA for the squared distances)'),
        assume=('whole-mapping obligations: source 2x1x3 with a symbolic surface, target 2x1x2 / 3x1x2, all 3x3 atmosphere combinations, independent symbolic spacings and elevations (one horizontal direction); self-identity on 2x2x2',
                'model transfer: the real t2data.transfer_from between models on 2x1x2 real geometries (identical target, or target with the first column halved), 3 atmosphere types, generators in a top-layer block and in a bottom block (constant MASS / HEAT and a 2-entry table), with and without preserve_generation_totals',
                'top / bottom (column) generators, renaming, other shapes, irregular meshes: bounded'),
        explanation='clause -> evidence: layer_mapping maps every target layer to a source layer with minimal centre distance, never the atmosphere layer, surface to surface; block_mapping gives an underground target block a block that '
                    'exists in the source (the nearest layer, moved down to the column\'s first layer below ground when that block would be above the surface); a geometry maps onto itself by the identity: PROVED on the real methods with '
                    'symbolic elevations (column mapping as an uninterpreted total function); and on two real rectangular geometries the whole block_mapping is total, picks the source column with the nearest centre and the nearest / first-below-ground layer, and sends atmosphere blocks to the source atmosphere block(s): PROVED for the 10 shape / atmosphere combinations under assume (column search through the assumed cKDTree contract). The real t2data.transfer_from onto an identical geometry preserves every generator (name, block, type, rates, tables), the lookup and the print block; onto a geometry with a halved column every source generator lands exactly in the blocks mapped to its block and, with preserve_generation_totals, constant rates and every table entry add up to those of the source: PROVED (6 programs). Nearest column on real meshes, incon and model transfers, atmosphere table: BOUNDED. 1 known finding (single target atmosphere block with a source that has none / one per column).',
        extra=[(c19b, c19b.PROGRAMS)])
