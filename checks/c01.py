"""C01 - TOUGH2 data file write/read round trip preserves the whole model."""
from checks import generic
from contracts import c01


def main(tier):
    return generic.run('C01', 'other', tier, c01, c01.programs(tier), c01.FUNCS, 'c01_roundtrip.py', 'write_read_write_roundtrip',
        'data objects built through the public constructors: each of the 23 sections alone, all 23, 1000 (quick) / 20000 (thorough) random legal subsets and orders, list lengths on both sides of '
        'every 4- and 8-per-line boundary, table generators 1..13 times with/without enthalpy, None in every optional leaf, both flavours, mesh in-file / MESH / MESHA+MESHB, extra precision '
        'off / on / echoed; every file under tests/data; decks written by an independent Fortran-style writer in six styles; contracts: model equality to the digits of each field, section order, '
        'write-read-write up to trailing blanks, then byte stability; distinct = distinct case descriptors',
        trust=('record tape model of the file objects: write / write_values / write_value_line append records, read_values / read_value_line / readline / parse_string consume them; a record read back '
               'returns, field by field, the value written in the same columns (blank -> None, string fields as their padded text: the contract C02 proves for the text layer), keyword / title / blank '
               'lines go through the real parse_string; t2data_parser / t2_extra_precision_data_parser / os.path.exists are replaced by a name -> tape file system',
               'pyvc heap model of t2data / t2grid / rocktype / t2block / t2connection / t2generator objects built by the real constructors; concrete structure, symbolic numeric content', 'z3'),
        assume=('whole-file obligations quantify over the numeric content of a fixed family of structures (7 base configurations x flavour x mesh in file / MESH file x extra precision off / all / all echoed / '
                'ROCKS+GENER, and every section kind that may follow PARAM with one and two lines of default initial conditions); other structures, the MESHA/MESHB binary pair and the MOP digit strings '
                '(concrete digits here) are bounded',),
        explanation='clause -> evidence: (1) the real t2data.write() and t2data.read() drivers - keyword dispatch, the line handed back by read_parameters, the section list, END keyword, MESH side file, '
                    'extra-precision side file with its skip functions and echo flag - run by the executor over record tapes: the re-read object has the same sections in the same order and every section\'s '
                    'content equal to what was written (symbolic contents, validity under the path condition), a second write reproduces the first files record for record, and a further fresh object reads '
                    'the same content (PROVED per configuration listed under assume). (2) every chunked section writer (time steps, output times, SELEC, generator time/rate/enthalpy tables, RZ2D radii and '
                    'layers) emits ceil(n/K) records of exactly K values that tile the list with blank padding, and the matching reader rebuilds exactly the list (PROVED on the real writer/reader pairs for '
                    'all lengths 0..17, symbolic contents); trim_trailing_nones (PROVED, exhaustive masks up to 8); insert_section keeps the canonical order (PROVED, exhaustive windows). Random subsets and '
                    'orders, byte stability of the text, binary mesh pair, real files, independent decks: BOUNDED. 8 known findings (exotic configurations, see known_findings.json).',
        bounded_timeout=(900, 3400))
