"""C01 - TOUGH2 data file write/read round trip preserves the whole model."""
from checks import generic
from contracts import c01


def main(tier):
    return generic.run('C01', 'other', tier, c01, c01.programs(tier), c01.FUNCS, 'c01_roundtrip.py', 'write_read_write_roundtrip',
        'data objects built through the public constructors: each of the 23 sections alone, all 23, 1000 (quick) / 20000 (thorough) random legal subsets and orders, list lengths on both sides of '
        'every 4- and 8-per-line boundary, table generators 1..13 times with/without enthalpy, None in every optional leaf, both flavours, mesh in-file / MESH / MESHA+MESHB, extra precision '
        'off / on / echoed; every file under tests/data; decks written by an independent Fortran-style writer in six styles; contracts: model equality to the digits of each field, section order, '
        'write-read-write up to trailing blanks, then byte stability; distinct = distinct case descriptors',
        trust=('record tape model of the file objects (write_values / read_values / write_value_line / read_value_line / readline / parse_string exchange whole records; the text layer is C02)',
               'pyvc record model of t2data / t2generator objects; list lengths 0..17 with symbolic contents', 'z3'),
        assume=('the driver layer (read()/write() keyword loops, side files, binary mesh records, hand-over of the line after PARAM) is outside the executor subset: bounded',),
        explanation='clause -> evidence: every chunked section writer (time steps, output times, SELEC, generator time/rate/enthalpy tables, RZ2D radii and layers) emits ceil(n/K) records of exactly K values that '
                    'tile the list with blank padding, and the matching reader rebuilds exactly the list (PROVED on the real writer/reader pairs for all lengths 0..17, symbolic contents); trim_trailing_nones '
                    '(PROVED, exhaustive masks up to 8); insert_section keeps the canonical order (PROVED, exhaustive windows). Whole-object round trips, section order, byte stability, side files, real files, '
                    'independent decks: BOUNDED. 8 known findings (exotic configurations, see known_findings.json).',
        bounded_timeout=(900, 3400))
