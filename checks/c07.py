"""C07 - what a listing shows at a given time does not depend on how you navigated there."""
from checks import generic
from contracts import c07


def main(tier):
    return generic.run('C07', 'other', tier, c07, c07.PROGRAMS, c07.FUNCS, 'c07_navigation.py', 'navigation_vs_fresh_listing',
        'every shipped listing with >= 2 result times and truncated copies; all action sequences up to length 3 (quick) / 4 (thorough) over {first, last, next, prev, '
        'index=i incl. negative, time=t exact/between/before/after, step=s, history} and random sequences; after each action index, time, step and every table array '
        'are compared with a freshly opened listing positioned at that index',
        trust=('pyvc record model of the listing cursor: _fullpos / fulltimes / fullsteps strictly increasing symbolic arrays of length n in {1,2,3,4}',
               'read_tables is opaque with frame {tables, _time, _step, file position}: it never assigns _index (frame checked on the AST in C06)',
               'numpy argmin: an index of a minimal element (first on ties)', 'z3'),
        assume=('table contents after navigation (the reader re-reads the right bytes) are decided by the bounded comparison with a fresh listing',),
        explanation='clause -> evidence: set_index normalises negative indices, seeks to that result set, reads tables at the new index, raises IndexError exactly out of range leaving the cursor; '
                    'next/prev report whether they moved and never pass either end; first/last; set_time / set_step select a nearest result set, the first before the first, the last after the last, '
                    'the exact one on an exact value; the cursor stays in range after any operation: PROVED on the real methods (n up to 4 result times). Equality of index/time/step/tables with a '
                    'fresh listing after arbitrary action sequences on the shipped files: BOUNDED.')
