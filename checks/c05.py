"""C05 - listing tables hold exactly the numbers printed in the listing file."""
from checks import generic
from contracts import c05, c05b


def main(tier):
    return generic.run('C05', 'other', tier, c05, c05.PROGRAMS, c05.FUNCS, 'c05_tables.py', 'tables_vs_independent_tokenizer',
        'all 37 shipped listings, every table and row at the first / middle / last (quick) or every (thorough) result time, compared cell by cell with an independent tokenizer of the printed '
        'text (exact decimal comparison); the three addressing modes; every subset of skipped tables; value-perturbed variants (same-width digits, negative, zero, 3-digit exponent, letter-less exponent); '
        'distinct = distinct (file, table, time / skip subset / variant) cases',
        trust=('pyvc record model of listingtable (2-D array as a matrix of symbolic reals)', 'fortran_float opaque in read_table_line (its contract is C16)', 'pyvc/rx.py: the model of re (finditer of a literal in parse_table_line), cross-checked against CPython re by run.py crosscheck', 'z3'),
        extra=[(c05b, c05b.programs(tier))],
        assume=('layout obligations: rows of the printed layouts (1X, A5, I6, 3E12.5) and (3X, A5, 2X, A5, I6, 3E13.6) - the TOUGH2 element and connection tables - with every digit, value sign and exponent sign symbolic, on both the format-detection row and the data row; the printed form of each field (2-digit exponent, 3-digit exponent without the letter, 3-digit exponent with the letter) is the concrete structure: 8 combinations (quick) or all 27 forms of the format-detection row for both tables (thorough) + 2 that reproduce the recorded findings; a 3-digit exponent on the format-detection row is followed by a blank sign column',
                'the file-cursor drivers (setup_table_*, read_table_* over seek / tell state, header parsing, the choice of the longest row) and the other simulators\' layouts are outside the executor subset: bounded on the shipped corpus and its perturbations'),
        explanation='clause -> evidence: row-name / row-index / column-name addressing agree, reversed connection names give the negated row iff allowed, __setitem__ touches one row, each cell is '
                    'fortran_float of exactly its own columns with blank trailing cells 0, keys are the printed names with the blank quirk repaired: PROVED on the real listingtable / read_table_line code. The layout inference chained as setup_table_TOUGH2 / read_table_TOUGH2 chain it (real start_of_values -> key_positions -> parse_table_line on a format-detection row, real key_from_line and read_table_line_TOUGH2 on a data row): every cell is read from characters that contain its whole printed field and nothing of another field, the row key is the printed name, nothing raises: PROVED for all digits, signs and exponent signs of both rows of the listed layouts. '
                    'Every cell of every table of every shipped file and perturbed variant equals the printed number, skip subsets do not change other tables: BOUNDED (exhaustive over the corpus in the thorough tier).',
        bounded_timeout=(1200, 3400))
