"""C05 - listing tables hold exactly the numbers printed in the listing file."""
from checks import generic
from contracts import c05


def main(tier):
    return generic.run('C05', 'other', tier, c05, c05.PROGRAMS, c05.FUNCS, 'c05_tables.py', 'tables_vs_independent_tokenizer',
        'all 37 shipped listings, every table and row at the first / middle / last (quick) or every (thorough) result time, compared cell by cell with an independent tokenizer of the printed '
        'text (exact decimal comparison); the three addressing modes; every subset of skipped tables; value-perturbed variants (same-width digits, negative, zero, 3-digit exponent, letter-less exponent); '
        'distinct = distinct (file, table, time / skip subset / variant) cases',
        trust=('pyvc record model of listingtable (2-D array as a matrix of symbolic reals)', 'fortran_float opaque in read_table_line (its contract is C16)', 'z3'),
        assume=('column detection (setup_table_*, parse_table_line, start_of_values) and table reading over seek/tell file state are outside the executor subset: bounded on the shipped corpus and its perturbations',),
        explanation='clause -> evidence: row-name / row-index / column-name addressing agree, reversed connection names give the negated row iff allowed, __setitem__ touches one row, each cell is '
                    'fortran_float of exactly its own columns with blank trailing cells 0, keys are the printed names with the blank quirk repaired: PROVED on the real listingtable / read_table_line code. '
                    'Every cell of every table of every shipped file and perturbed variant equals the printed number, skip subsets do not change other tables: BOUNDED (exhaustive over the corpus in the thorough tier).',
        bounded_timeout=(1200, 3400))
