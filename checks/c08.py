"""C08 - TOUGH2 grid stays internally consistent under any sequence of edits."""
import itertools
from checks import generic
from contracts import c09


def main(tier):
    progs = [('p_embed', True), ('p_embed', False)] + [('p_rename', w) for w in ('swap', 'cycle', 'fresh', 'chain')] + [('p_reorder', m) for m in [(False,) * 4, (True,) * 4, (True, False, True, False)]]
    return generic.run('C08', 'other', tier, c09, progs, c09.FUNCS, 'c08_gridedits.py', 'wellformed_after_every_edit',
        'exhaustive: every edit sequence up to length 3 (quick) / 4 (thorough) over 4 block names, 2 rock types and all one-to-one partial name maps not colliding with an unrenamed block (swaps, cycles) with operations '
        '{add / delete block, connection, rock type; rename_blocks; rename_rocktype; reorder; demote_block; clean_rocktypes; +; embed}; random sequences up to length 60 on grids from geometries incl. minc; '
        'wf(grid) after every step',
        trust=('the representation invariant wf(grid) of DESIGN 3/C08 as a plain function', 'pyvc heap model for the rename / reorder obligations', 'z3'),
        assume=('heap-mutating primitives are exercised exhaustively at small scope, not proved',),
        explanation='clause -> evidence: renaming with swap / cycle / chain / fresh maps loses no block and keeps lookups, lists, connection keys and per-block connection records consistent; reorder with reversed '
                    'connections keeps the grid well formed: PROVED (heap model). Well-formedness after every enumerated and random edit sequence: BOUNDED (exhaustive at the stated scope). 3 known findings.',
        bounded_timeout=(1200, 3400))
