"""C08 - TOUGH2 grid stays internally consistent under any sequence of edits."""
import itertools
from checks import generic
from contracts import c09, c08


def main(tier):
    progs = [('p_embed', True), ('p_embed', False)] + [('p_rename', w) for w in ('swap', 'cycle', 'fresh', 'chain')] + [('p_reorder', m) for m in [(False,) * 4, (True,) * 4, (True, False, True, False)]]
    return generic.run('C08', 'other', tier, c09, progs, c09.FUNCS + c08.FUNCS, 'c08_gridedits.py', 'wellformed_after_every_edit',
        'exhaustive: every edit sequence up to length 3 (quick) / 4 (thorough) over 4 block names, 2 rock types and all one-to-one partial name maps not colliding with an unrenamed block (swaps, cycles) with operations '
        '{add / delete block, connection, rock type; rename_blocks; rename_rocktype; reorder; demote_block; clean_rocktypes; +; embed}; random sequences up to length 60 on grids from geometries incl. minc; '
        'wf(grid) after every step',
        trust=('the representation invariant wf(grid) of DESIGN 3/C08 evaluated clause group by clause group on the executor heap (object identities, names, records)', 'pyvc heap model of t2grid / t2block / t2connection / rocktype objects built by the real constructors', 'z3'),
        assume=('contract requires wf(grid): start grids are a 4-block ring (real constructors, symbolic contents) and the grid fromgeo() builds from a real 2x1x2 rectangular geometry with a symbolic surface (its wf proved first); one operation per obligation program (29 instances) and 6 three-operation sequences',
                'sequences of operations and MINC (scipy bisect) are bounded (exhaustive at the stated scope)'),
        extra=[(c08, c08.PROGRAMS)],
        explanation='clause -> evidence: renaming with swap / cycle / chain / fresh maps loses no block and keeps lookups, lists, connection keys and per-block connection records consistent; reorder with reversed '
                    'connections keeps the grid well formed: PROVED (heap model). requires wf(grid) ensures wf(grid\') PROVED clause group by clause group on the real add_block / delete_block / add_connection / delete_connection / add_rocktype / rename_rocktype / clean_rocktypes / sort_rocktypes / demote_block / rename_blocks (swap, 3-cycle, fresh) / reorder / + / embed, on both start grids, and no block is lost by the renaming / reordering operations; replacing a block or rock type object that is in use and deleting a used rock type reproduce the 3 known findings. Well-formedness after every enumerated and random edit sequence: BOUNDED (exhaustive at the stated scope). 3 known findings.',
        bounded_timeout=(1200, 3400))
