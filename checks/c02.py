"""C02 - fixed-column records never spill: each field parses back to what was written."""
from vlib.check import Check, run_programs, absorb, run_bounded_script, REPO
from contracts import c02
from checks.c17 import bounded_to_check

LEVEL = 'proof'


def main(tier):
    chk = Check('C02', LEVEL, tier)
    for q in c02.FUNCS:
        chk.function_under_contract(q)
    for mod, name, rf in c02.TABLES:
        chk.function_under_contract(mod)      # records file hash of the module holding the table
    progs = c02.programs(tier)
    res = run_programs('contracts.c02', progs, timeout_ms=30000 if tier == 'quick' else 120000)
    absorb(chk, res, c02.replay, prefix='C02/')
    nfield = sum(1 for p in progs if p[0] == 'p_field')
    nglue = sum(1 for p in progs if p[0] == 'p_glue')
    chk.notes.append('%d distinct field formats, %d record kinds in the 4 tables (read from the real modules this run)' % (nfield, nglue))
    if nglue < 60 or nfield < 15:
        chk.engine_failure('vacuity guard: only %d record kinds / %d formats found' % (nglue, nfield))
    b = run_bounded_script('c02_fields.py', [tier, chk.seed], timeout=900 if tier == 'quick' else 3400)
    b['cmd'] = 'PYTOUGH_REPO=%s /venv/bin/python bounded/c02_fields.py %s %s' % (REPO, tier, chk.seed)
    bounded_to_check(chk, 'C02/bounded:axioms_F1_F3_and_whole_record_lattice', b,
                     'every field of every record kind x (reals: sign x exponent -120..120 x mantissa patterns incl. carry cases; '
                     'integers up to one past the width; names up to width+2; absent value in every position), neighbours filled with '
                     'sentinels; written through the real code under CPython and parsed back; cross-checks printf axioms F1-F3; '
                     'distinct = distinct (format, value type, 3-digit-exponent?, negative?) classes')
    chk.trust('F1: len("%N.P<efg>" % v) >= N  (printf pads, never truncates) - used for "piece has exactly the field width"; cross-checked on the lattice every run',
              'F3/A3: float() of a %-formatted real is that real rounded to the printed digits (CPython dtoa) - the value clause for reals is structural (the piece is a %-format of the very value, at the field\'s precision or lower) plus the bounded lattice',
              'A1: reals are mathematical reals in the executor', 'A2: printable ASCII names',
              'pyvc executor semantics (native replay of every counterexample); z3, cvc5 for unknowns',
              'loop-body summarisation in the glue obligations: the write loop body is replaced by its contract (one piece of |w_k| columns), which the p_field obligations prove for every format of the tables')
    chk.assume('line-end handling (callers padding with padstring) is outside this property; short unpadded lines are shown not to raise')
    chk.explanation = ('every clause is carried by discharged obligations + listed axioms: T1 column table per record kind (exhaustive over the real tables), '
                       'T2 per-format body contract (symbolic value: exact width or ValueError; integers read back exactly or fail loudly one past the width; names exact/truncated in place; reals at most their precision), '
                       'T3 per-record glue (each piece in its own columns, parse_string hands exactly that slice to the reader of that type), T4 reader tables. '
                       'The bounded lattice is a cross-check of the axioms, not part of the proof.')
    return chk.finish()
