"""C11 - refining or decomposing columns conserves area and volume and tiles the domain."""
from checks import generic
from contracts import c11, c10


def main(tier):
    return generic.run('C11', 'other', tier, c11, c11.PROGRAMS, c11.FUNCS, 'c11_refine.py', 'conservation_tiling_conformity',
        'every column subset of a 3x3 (thorough: also 4x3) rectangle with unequal spacings x full / x / y / longest refinement x edge-column variants; strips; earlier refinements; shipped geometries with chains of edits; '
        'polygons with 5..10 sides and 0..4 straight angles (decompose, triangulate); split_column; refine_layers on layer subsets x factors 2..4 x surface patterns; area and volume conservation, tiling by point sampling with '
        'an independent point-in-polygon, conformity with an independent edge table',
        trust=('templates and transition_type extracted from the AST of mulgrid.refine at every run', 'sympy polynomial identity over symbolic vertex coordinates and a free centre point', 'exact combinatorics on the template edges'),
        assume=('whole-operation obligations: start geometry mulgrid.rectangular() of 2x2x2 / 2x2x3 / 3x2x2 / 3x1x2 blocks with symbolic spacings and surfaces, one operation per program',
                'positive orientation of each piece (convex parents) is not part of the algebraic identity: proved on the rectangular instances, bounded elsewhere', 'decompose_column / triangulate / split templates and refine_layers thickness algebra: bounded'),
        explanation='clause -> evidence: every subdivision template of refine (triangles and quadrilaterals, every refined-side pattern) conserves signed area for ARBITRARY vertex positions and any centre point (PROVED, polynomial identity); '
                    'every template is conforming - each interior edge appears once in each direction, the boundary is the parent boundary with exactly the refined sides split, pieces have 3 or 4 vertices (PROVED, exact); transition_type is '
                    'total on every non-empty side subset of 3- and 4-sided columns and selects the template whose refined sides are exactly the given ones (PROVED, exhaustive). On a real rectangular geometry (constructor and operation run by the executor, symbolic spacings and surfaces) refine of all / a subset of columns, bisection, x-bisection, decompose_columns and refine_layers: total plan area and rock volume unchanged, every new column inside one old column with its surface, new columns adding up to the old column area, mesh conforming (connections exactly where two columns share an edge, no orphan node) and the representation invariant of C10: PROVED per operation instance (shared with C10; split_column and refine beside a boundary reproduce known findings). Irregular meshes, polygons with 5+ sides, point-sampled tiling: BOUNDED. 7 known findings.',
        bounded_timeout=(1200, 3400), extra=[(c10, c10.programs_c11(tier))])
