"""C11 - refining or decomposing columns conserves area and volume and tiles the domain."""
from checks import generic
from contracts import c11


def main(tier):
    return generic.run('C11', 'other', tier, c11, c11.PROGRAMS, c11.FUNCS, 'c11_refine.py', 'conservation_tiling_conformity',
        'every column subset of a 3x3 (thorough: also 4x3) rectangle with unequal spacings x full / x / y / longest refinement x edge-column variants; strips; earlier refinements; shipped geometries with chains of edits; '
        'polygons with 5..10 sides and 0..4 straight angles (decompose, triangulate); split_column; refine_layers on layer subsets x factors 2..4 x surface patterns; area and volume conservation, tiling by point sampling with '
        'an independent point-in-polygon, conformity with an independent edge table',
        trust=('templates and transition_type extracted from the AST of mulgrid.refine at every run', 'sympy polynomial identity over symbolic vertex coordinates and a free centre point', 'exact combinatorics on the template edges'),
        assume=('positive orientation of each piece (convex parents) is not part of the algebraic identity: bounded', 'decompose_column / triangulate / split templates and refine_layers thickness algebra: bounded'),
        explanation='clause -> evidence: every subdivision template of refine (triangles and quadrilaterals, every refined-side pattern) conserves signed area for ARBITRARY vertex positions and any centre point (PROVED, polynomial identity); '
                    'every template is conforming - each interior edge appears once in each direction, the boundary is the parent boundary with exactly the refined sides split, pieces have 3 or 4 vertices (PROVED, exact); transition_type is '
                    'total on every non-empty side subset of 3- and 4-sided columns and selects the template whose refined sides are exactly the given ones (PROVED, exhaustive). Whole-mesh area / volume conservation, tiling, conformity, layer refinement: BOUNDED. 7 known findings.',
        bounded_timeout=(1200, 3400))
