"""C12 - point and line location in a geometry agree with exhaustive search."""
import os
from vlib.check import Check, run_programs, absorb, run_bounded_script, REPO, VERIF
from contracts import c12
from checks.c17 import bounded_to_check

LEVEL = 'other'


def main(tier):
    chk = Check('C12', LEVEL, tier)
    for q in c12.FUNCS:
        chk.function_under_contract(q)
    res = run_programs('contracts.c12', c12.programs(tier), timeout_ms=30000 if tier == 'quick' else 120000)
    absorb(chk, res, c12.replay, prefix='C12/')
    if os.path.exists(os.path.join(VERIF, 'bounded', 'c12_location.py')):
        b = run_bounded_script('c12_location.py', [tier, chk.seed], timeout=900 if tier == 'quick' else 3400)
        b['cmd'] = 'PYTOUGH_REPO=%s /venv/bin/python bounded/c12_location.py %s %s' % (REPO, tier, chk.seed)
        bounded_to_check(chk, 'C12/bounded:location_vs_exhaustive_search', b,
                         'random points in / outside the bounding box of rectangular, shipped irregular, refined and rotated geometries (rejected within a tolerance of an edge), '
                         'all search aids and guesses vs brute force with an independent point-in-polygon; 3-D block location; column_track vs dense sampling and independent clipping')
    chk.trust('A1: floats as mathematical reals', 'pyvc record model (quadtree built by the real constructor on symbolic element centres); pyvc heap model of real rectangular geometries', 'sets of objects are iterated in creation order (CPython: address order)', 'z3 QF_LRA / QF_NRA')
    chk.assume('whole-search obligations: real column_containing_point / block_name_containing_point on real rectangular geometries (2x2, 3x1, 3x2 columns; 2x1x2 blocks with a symbolic surface, 3 atmosphere types) with symbolic spacings and a symbolic point, one search aid per program (none, two guesses, bounding rectangle, column subset, quadtree); points within 1e-6 of a column edge are outside the quantifier',
               'in_polygon is proved for counter-clockwise triangles with no edge within 1e-3 of horizontal; general polygons (Jordan-curve argument), the wave search, column_track ordering and lengths: bounded')
    chk.explanation = ('clause -> evidence: in_rectangle == closed-box membership, rectangles_intersect symmetric and <=> a common point, the four sub-rectangles cover the parent and overlap only on the '
                       'centre lines (so the quadtree places every element), bounds_of_points is the tight box (n up to 8), quadtree.leaf returns a node containing the point / None iff outside, '
                       'layer_containing_elevation returns the unique containing underground layer off boundaries, in_polygon exact on triangles incl. rays through a vertex, line_intersects_rectangle: a rejected segment has no point in the rectangle and the clipping never divides by zero (all 149 paths of the clipping loop): PROVED. '
                       'On real rectangular geometries the real column_containing_point returns, for every spacing and every point, the column that strictly contains the point whichever aid is used (no aid, right / wrong guess, bounds, subset, quadtree), a column that contains the point whenever it returns one, and nothing outside the domain; block_name_containing_point returns the unique block containing a 3-D point: PROVED (8 + 3 programs). '
                       'Agreement of the aids on irregular meshes, line tracks: BOUNDED.')
    return chk.finish()
