"""C17 - block, column, layer and node names are unique, well-formed and invertible."""
import os, sys, time
from vlib.check import Check, run_programs, absorb, run_bounded_script, REPO
from contracts import c17

LEVEL = 'other'


def bounded_to_check(chk, name, res, rule, exhaustive=False):
    """Common handling of a bounded harness result."""
    if 'error' in res:
        if res.get('timeout'):
            chk.violation(name, 'bounded harness did not terminate: %s' % res['error'], key=name + ' timeout',
                          replay={'cmd': res.get('cmd', '')}, found_input=True)
        else:
            chk.engine_failure('%s: %s %s' % (name, res['error'], (res.get('stderr') or '')[-800:]))
        return
    chk.add_bounded(name, res['evaluations'], res['distinct'], rule, res.get('samples', []),
                    exhaustive=exhaustive, seconds=res.get('seconds', 0))
    for f in res.get('failures', []):
        chk.violation(name + '/' + f['key'].split(' ')[0], f['what'], key=f['key'],
                      replay={'input': f.get('input'), 'cmd': res.get('cmd', '')}, found_input=True)


def main(tier):
    chk = Check('C17', LEVEL, tier)
    for q in c17.FUNCS:
        chk.function_under_contract(q)
    timeout = 20000 if tier == 'quick' else 90000
    res = run_programs('contracts.c17', c17.PROGRAMS, timeout_ms=timeout)
    absorb(chk, res, c17.replay, prefix='C17/')
    from contracts import c11
    res2 = run_programs('contracts.c11', [('p_add_layers', a) for a in ((2, 45), (2, 46), (2, 50), (0, 12), (1, 30), (3, 50))], timeout_ms=timeout)
    absorb(chk, res2, c11.replay, prefix='C17/')
    vac = [r['program'] for r in res if not r['obligations']]
    if vac:
        chk.notes.append('programs with no obligation: %s' % vac)
    args = [tier, chk.seed]
    b = run_bounded_script('c17_names.py', args, timeout=600 if tier == 'quick' else 3000)
    b['cmd'] = 'PYTOUGH_REPO=%s /venv/bin/python bounded/c17_names.py %s %s' % (REPO, tier, chk.seed)
    bounded_to_check(chk, 'C17/bounded:constructed_geometries_and_generators', b,
                     'rectangular() for conventions x atmosphere x justify x case/custom chars x spaces at sizes crossing '
                     'each capacity limit; generator integers 1..N natively; random 5-character names; distinct = distinct '
                     '(convention, size) / generator configurations whose contract was evaluated',
                     exhaustive=False)
    chk.trust('A2: strings are over printable ASCII 32..126; isdigit/lower/upper/strip are the ASCII ones',
              'z3 4.x/5.x (QF_LIA + uninterpreted character vectors); cvc5 for z3 unknowns',
              'pyvc executor semantics of the Python subset (DESIGN 2.1), cross-checked against CPython by native replay of every counterexample and by the bounded harness evaluating the same contracts')
    chk.assume('block_name inversion is proved under the generator-established shapes: conventions 0/3 third column character not a digit; convention 1 third layer character not a digit; convention 2 column name a right-justified numeral',
               'int_to_chars recursion is inlined (depth <= 4 for numbers <= 20000); numbers above 20000 are outside the quantifier',
               'custom alphabets: injectivity proved for symbolic distinct alphabets of 3 letters and for the 26-letter default; other sizes bounded',
               'constructed geometries: two concrete shapes with symbolic numeric content per (convention, atmosphere type, justification / case); names do not depend on the numeric content')
    chk.explanation = (
        'clause -> evidence: (a) fix idempotent, unfix returns the simulator (a3,i2) form, one write/read cycle is stable, '
        'fix/unfix change only the 4th character: PROVED for all 95^5 printable names (z3 over character vectors, real source). '
        '(b) column/layer part of block_name inverts under every convention: PROVED for all names of the convention shape. '
        '(c) generated column/node/layer names have the convention length, are pairwise distinct, and NamingConventionError '
        'is raised exactly beyond capacity: PROVED for all numbers 1..20000 (symbolic pairs a<b), default alphabet, both justifications. '
        '(d) every constructed geometry has distinct 5-character block names whose column and layer parts give back the column and layer: PROVED for geometries built by the real '
        'mulgrid.rectangular (run by the executor, symbolic spacings and origin) of 3x2x3 and 12x1x2 blocks under the 4 conventions x 3 atmosphere types x right/lower and left/upper-case names (48 programs); '
        'at the capacity limits (48 / 49 / 99 / 100 columns, 99 / 100 layers, 27 letter layers, 9x10 and 10x10 columns) the real constructor completes with distinct names exactly when nodes, columns and layers fit the name space of the convention and raises NamingConventionError otherwise: PROVED for 9 instances; the enumeration of all sizes is BOUNDED.')
    return chk.finish()
