"""C16 - Fortran-written numbers are read with Fortran's meaning, and never raise."""
from vlib.check import Check, run_programs, absorb, run_bounded_script, REPO
from contracts import c16
from checks.c17 import bounded_to_check

LEVEL = 'other'


def main(tier):
    chk = Check('C16', LEVEL, tier)
    for q in c16.FUNCS:
        chk.function_under_contract(q)
    res = run_programs('contracts.c16', c16.programs(tier), timeout_ms=60000 if tier == 'quick' else 1200000)
    absorb(chk, res, c16.replay, prefix='C16/')
    # the underscore class is a recorded finding: give its violations one stable key
    for v in chk.violations:
        if 'garbage_with_underscore' in v['obligation']:
            v['key'] = 'float-underscore (deductive) ' + v['obligation']
    b = run_bounded_script('c16_readers.py', [tier, chk.seed], timeout=900 if tier == 'quick' else 3400)
    b['cmd'] = 'PYTOUGH_REPO=%s /venv/bin/python bounded/c16_readers.py %s %s' % (REPO, tier, chk.seed)
    bounded_to_check(chk, 'C16/bounded:rendering_lattice_and_random_strings', b,
                     'sign x exponent -300..300 x mantissa digit patterns x every Fortran output style (E/D, case, leading '
                     'point, explicit plus, dropped letter, blank for plus, blank padding) rendered by an independent writer and '
                     'compared with an exact Fraction-based Fortran reader; integers with blank padding; random strings <= 20 over '
                     '4 alphabets; distinct = distinct (style, exponent class, blank placement) classes')
    chk.trust('A2: printable ASCII alphabet 32..126', 'A3: CPython float() on an accepted decimal string returns the correctly rounded value (dtoa trusted)',
              'the float()/int() acceptance DFAs of pyvc/values.py (differentially tested against CPython; every counterexample is replayed natively)',
              'z3; cvc5 for z3 unknowns')
    chk.assume('safety, blank-field and Python-accepted clauses are proved for every string of length <= 20',
               'Fortran-meaning and garbage clauses are proved for every string of length <= 6 (quick) / <= 9 for reals and <= 13 for integers (thorough); '
               'longer fields up to 20 are bounded (lattice + random), the solver times out on the value obligations there')
    chk.explanation = (
        'clause -> evidence: never raises, blank field <=> blank value, Python-accepted text gives Python\'s result: PROVED for all '
        'printable strings of length <= 20 from the real source. Fortran meaning (D/E, dropped letter, blanks ignored) and garbage=>nan/None: '
        'PROVED for all strings up to length 6 (quick) / 9 reals, 13 integers (thorough) against an independent specification automaton; BOUNDED for widths up to 20 '
        'on the rendering lattice. Known finding: a field containing an underscore between digits that needs Fortran canonicalisation is read as a number.')
    return chk.finish()
