"""C06 - time-history extraction equals stepping through the listing, and terminates."""
from checks import generic
from contracts import c06


def main(tier):
    return generic.run('C06', 'other', tier, c06, c06.PROGRAMS, c06.FUNCS, 'c06_history.py', 'history_vs_stepping',
        'every shipped listing; subsets and orderings of its tables (incl. selections skipping intermediate tables), rows by name / reversed name / integer index, first/last/interior rows, '
        'columns, tuple and list forms, short on/off, several starting indices; history() result compared cell by cell with stepping through every result time; each call under a timeout; '
        'reader state (index, time, step, tables) compared before/after',
        trust=('AST frame analysis: methods reachable from history through self.<name>() calls (a dispatch slot self.X reaches every X_<SIM> variant; property getters/setters included)',
               'pyvc execution of the nested ordered_selection and of the read loop of history on record models (tables with 4 rows; the SHORT order an arbitrary permutation)',
               'skipto / next_table opaque in the progress obligations: found => the position strictly advances; not found => end of file; next_table gives None after a failed skipto', 'z3'),
        assume=('termination of history as a whole is the progress obligations + a finite file: on a file where a wanted table is missing before the end, skip_to_table_TOUGH2 does not exit (observation outside the quantifier: every shipped listing has every table at every time)',
                'the whole history() is run on a listing record (3 full result sets, optionally 2 short-output sets in between; 3 element rows, 2 connection rows; positioning is a counter, read_table_line returns symbolic cells named by result set / table / line) for short on / off: 3 programs',
                'equality of the extracted series with stepping on the real files is bounded'),
        explanation='clause -> evidence: history never assigns the reader\'s time, step or tables and restores the index (PROVED as a frame obligation over every method reachable from history); '
                    'the selection is ordered per table in file order, full items by row line, short items by SHORT line, each item with its own reverse flag (PROVED for all row choices / directions / SHORT permutations of a 4-row model); '
                    'each extracted value is its own cell negated iff its own name was reversed (PROVED on the real read loop); every iteration of the table-skipping loops exits or advances the file '
                    '(PROVED; TOUGH2 variant: or hits end of file). The real history() as a whole on a listing record returns, for an element row printed in the short output, one that is not, a connection and a reversed connection, exactly the cells a step-through reads (negated for the reversed name), each paired with a time array of the same length holding the times it was read at, and leaves the reader index as it was (PROVED, symbolic cells and times, short on / off). History == stepping on the shipped files for the enumerated selections, and wall-clock termination: BOUNDED.')
