"""C20 - flavour conversion and Waiwera export keep the model, drop only what they say."""
from checks import generic
from contracts import c20, c20b


def main(tier):
    return generic.run('C20', 'other', tier, c20, c20.PROGRAMS, c20.FUNCS + c20b.FUNCS, 'c20_convert.py', 'conversion_and_export_models',
        'models with every combination of sections, generators of every AUTOUGH2 / TOUGH2 type (supported, convertible, unsupported, duplicated names), MOP digits 0..9 in each position, MP on/off, '
        'short output / history lists with objects and bare names; converted models written and re-read; Waiwera export on rectangular geometries (atmosphere types, block orders, boundary blocks of '
        'huge / zero volume): rock cells partition the non-boundary blocks, source cell indices, EOS detection by every route',
        trust=('pyvc heap model of t2data / t2grid / t2generator objects; MOP option array of 24 symbolic digits 0..9', 'z3'),
        assume=('whole-model obligations: the full data object of the C01 whole-file obligation (every section kind of the flavour, symbolic numeric content, plus generators of convertible / unsupported / duplicated-key types), AUTOUGH2 -> TOUGH2 (also MP) and TOUGH2 -> AUTOUGH2, then write() / read() over the tape file system',
                'rocks_json: 2x1x2 geometry, atmosphere blocks of huge volume; other section subsets, generators_json / boundaries_json: bounded',
                'EWTD tracer diffusion detection uses numpy allclose: bounded'),
        explanation='clause -> evidence: convert_to_TOUGH2 leaves no simulator / LINEQ / short-output section and no EOS name, MOP(21) from the linear solver (0 for MP), MOP 22-24 cleared, MOP 10/12 value 2 cleared, '
                    'every other MOP digit untouched (frame over all 24 symbolic digits), short output becomes history, conductivity rescaled only as documented; convert_to_AUTOUGH2 is the mirror image and never raises '
                    'for any solver type 0..9; unsupported generators are deleted from list and lookup, CO2 becomes COM2, the rest untouched, lookup consistent under duplicated names (all 7^3 type choices); '
                    'eos_json recognises every supported EOS given explicitly, via MULTI, via the simulator string, also with an empty MULTI eos, and raises when none: PROVED on the real methods. '
                    'On the full model the real convert_to_TOUGH2 / convert_to_AUTOUGH2 leave a model that declares the target flavour, holds nothing specific to the old one, keeps grid and rock types, keeps the generators of supported types in order (CO2 -> COM2) and deletes the others from list and lookup, turns short-output blocks into history blocks and back, and survives write() -> read() -> write() over the tape file system: PROVED (3 programs). '
                    'rocks_json on the grid of a real rectangular geometry (3 atmosphere types, two rock types, one block of symbolic volume): every non-boundary block is in exactly the cell list of its own rock type under its cell index, boundary blocks in none: PROVED. '
                    'generators_json on a real grid (3 atmosphere types / EOS names; production and injection MASS, HEAT, COM1 and a table generator with blank GX, one generator in an atmosphere block): one source per generator in order, each with the cell index of its block (None in the atmosphere), constant rates and rate / enthalpy tables carried over: PROVED (it found the blank-GX TypeError repaired in 81bacd7). '
                    'Other section subsets, generator networks and boundaries of the Waiwera export: BOUNDED.',
        extra=[(c20b, c20b.PROGRAMS)])
