"""C10 - the representation invariant wf(geo) of a mulgrid object as a contract on the real editing
operations: requires wf(geo), ensures wf(geo').  The geometry is a real one - mulgrid.rectangular()
run by the executor with symbolic spacings, elevation origin and column surfaces - and every editing
operation is the real method run by the executor; the invariant is evaluated on the resulting heap
with symbolic clauses (areas, orientation, layer counts) proved under the path condition."""
import z3
from pyvc.engine import Obj, NVec
from pyvc import library as L
from pyvc.values import PyExc, Unsupported, to_real, to_int
from contracts.c04 import build_rect, _valid

FUNCS = ['mulgrids.mulgrid.copy_layers_from', 'mulgrids.mulgrid.clear_layers', 'mulgrids.mulgrid.add_well', 'mulgrids.mulgrid.delete_well', 'mulgrids.mulgrid.rotate', 'geometry.linear_trans2.rotation', 'geometry.linear_trans2.__call__', 'mulgrids.mulgrid.get_missing_connections', 'mulgrids.mulgrid.get_orphans', 'mulgrids.mulgrid.connects', 'mulgrids.column.is_against', 'mulgrids.mulgrid.delete_column', 'mulgrids.mulgrid.delete_node', 'mulgrids.mulgrid.delete_connection', 'mulgrids.mulgrid.delete_layer',
         'mulgrids.mulgrid.rename_column', 'mulgrids.mulgrid.rename_layer', 'mulgrids.mulgrid.split_column', 'mulgrids.mulgrid.add_node', 'mulgrids.mulgrid.add_column',
         'mulgrids.mulgrid.add_connection', 'mulgrids.mulgrid.add_layer', 'mulgrids.mulgrid.translate', 'mulgrids.mulgrid.refine', 'mulgrids.mulgrid.refine_layers',
         'mulgrids.mulgrid.decompose_columns', 'mulgrids.mulgrid.reduce', 'mulgrids.mulgrid.snap_columns_to_layers', 'mulgrids.mulgrid.snap_columns_to_nearest_layers',
         'mulgrids.mulgrid.copy_layers_from', 'mulgrids.mulgrid.identify_neighbours', 'mulgrids.mulgrid.setup_block_name_index', 'mulgrids.mulgrid.setup_block_connection_name_index']


def shoelace(nodes):
    """Signed area (counter-clockwise positive) of the polygon through the node positions."""
    pts = [(to_real(n.fields['pos'].items[0]), to_real(n.fields['pos'].items[1])) for n in nodes]
    s = 0
    for k in range(len(pts)):
        (x0, y0), (x1, y1) = pts[k], pts[(k + 1) % len(pts)]
        s = s + (x0 * y1 - x1 * y0)
    return s / 2


GROUPS = ('lookups_and_lists_agree', 'nodes_know_their_columns', 'columns_know_their_connections_and_neighbours', 'columns_counter_clockwise_with_their_area',
          'layer_count_matches_surface', 'connection_nodes_are_the_shared_edge', 'no_missing_or_extra_connections_no_orphan_nodes', 'no_node_inside_another_columns_edge', 'name_lists_are_a_fresh_recomputation')


def wf(e, geo, valid_mesh=True, domain=None):
    """The invariant, clause group by clause group: {group: [violations]} (all empty = well formed)."""
    f = geo.fields
    out = dict((g, []) for g in GROUPS)
    def same_objects(lst, dct, key, what):
        bad = out['lookups_and_lists_agree']
        names = [key(o) for o in lst]
        if len(set(names)) != len(names):
            bad.append('%s names are not unique: %r' % (what, names))
        if set(dct.keys()) != set(names) or any(dct.get(key(o)) is not o for o in lst):
            bad.append('%s lookup and list disagree: list %r, lookup keys %r' % (what, names, sorted(dct.keys(), key=str)))
    same_objects(f['nodelist'], f['node'], lambda o: o.fields['name'], 'node')
    same_objects(f['columnlist'], f['column'], lambda o: o.fields['name'], 'column')
    same_objects(f['layerlist'], f['layer'], lambda o: o.fields['name'], 'layer')
    same_objects(f['welllist'], f['well'], lambda o: o.fields['name'], 'well')
    same_objects(f['connectionlist'], f['connection'], lambda o: tuple(c.fields['name'] for c in o.fields['column']), 'connection')
    cols, cons = f['columnlist'], f['connectionlist']
    ids = lambda xs: set(id(x) for x in xs)
    for n in f['nodelist']:
        users = [c for c in cols if any(m is n for m in c.fields['node'])]
        if ids(n.fields['column']) != ids(users):
            out['nodes_know_their_columns'].append('node %r knows columns %r, used by %r' % (n.fields['name'], sorted(c.fields['name'] for c in n.fields['column']), [c.fields['name'] for c in users]))
        if valid_mesh and not users:
            out['no_missing_or_extra_connections_no_orphan_nodes'].append('orphan node %r' % n.fields['name'])
    for c in cols:
        for n in c.fields['node']:
            if not any(n is m for m in f['nodelist']):
                out['nodes_know_their_columns'].append('column %r uses a node that is not in the geometry' % c.fields['name'])
        mine = [k for k in cons if any(x is c for x in k.fields['column'])]
        bad = out['columns_know_their_connections_and_neighbours']
        if ids(c.fields['connection']) != ids(mine):
            bad.append('column %r knows %d connections, %d mention it' % (c.fields['name'], len(c.fields['connection']), len(mine)))
        nb = [x for k in mine for x in k.fields['column'] if x is not c]
        if ids(c.fields['neighbour']) != ids(nb):
            bad.append('column %r neighbours %r, connected to %r' % (c.fields['name'], sorted(x.fields['name'] for x in c.fields['neighbour']), [x.fields['name'] for x in nb]))
        a = shoelace(c.fields['node'])
        if not _valid(e, z3.And(a > 0, to_real(c.fields['area']) == a)):
            out['columns_counter_clockwise_with_their_area'].append('column %r: stored area %s, shoelace area of its nodes %s' % (c.fields['name'], c.fields['area'], z3.simplify(a)))
        surf = e.getattr(c, 'surface')
        below = [l for l in f['layerlist'][1:]]
        cnt = sum([z3.If(to_real(l.fields['bottom']) < to_real(surf), 1, 0) for l in below]) if below else 0
        if not _valid(e, (to_int(c.fields['num_layers']) if not isinstance(c.fields['num_layers'], int) else c.fields['num_layers']) == cnt):
            out['layer_count_matches_surface'].append('column %r has num_layers %s but %s layers lie below its surface' % (c.fields['name'], c.fields['num_layers'], z3.simplify(cnt) if z3.is_expr(cnt) else cnt))
    for k in cons:
        a, b = k.fields['column']
        for x in (a, b):
            if not any(x is c for c in cols):
                out['lookups_and_lists_agree'].append('connection %r mentions a column that is not in the geometry' % (tuple(c.fields['name'] for c in k.fields['column']),))
        shared = [n for n in a.fields['node'] if any(n is m for m in b.fields['node'])]
        if ids(k.fields['node']) != ids(shared) or len(shared) != 2:
            out['connection_nodes_are_the_shared_edge'].append('connection %r nodes %r, shared edge %r' % (tuple(c.fields['name'] for c in k.fields['column']), [n.fields['name'] for n in k.fields['node']], [n.fields['name'] for n in shared]))
    if valid_mesh:
        for i, a in enumerate(cols):
            for b in cols[i + 1:]:
                shared = [n for n in a.fields['node'] if any(n is m for m in b.fields['node'])]
                joined = any(ids(k.fields['column']) == ids([a, b]) for k in cons)
                if (len(shared) >= 2) != joined:
                    out['no_missing_or_extra_connections_no_orphan_nodes'].append('columns %r and %r share %d nodes but are %sconnected' % (a.fields['name'], b.fields['name'], len(shared), '' if joined else 'not '))
    if domain is not None:
        # conformity: an edge of a column is either an edge of exactly one other column or lies on the boundary of the
        # (rectangular) domain - a node sitting inside another column's edge leaves that edge without a partner
        xa, xb, ya, yb = domain
        edges = {}
        for c in cols:
            nn = c.fields['node']
            for k in range(len(nn)):
                key = frozenset((id(nn[k]), id(nn[(k + 1) % len(nn)])))
                edges.setdefault(key, []).append((c, nn[k], nn[(k + 1) % len(nn)]))
        for key, users in edges.items():
            c, p, q = users[0]
            if len(users) > 2:
                out['no_node_inside_another_columns_edge'].append('edge %r-%r is used by %d columns' % (p.fields['name'], q.fields['name'], len(users)))
            elif len(users) == 1:
                px, py, qx, qy = [to_real(v) for v in (p.fields['pos'].items[0], p.fields['pos'].items[1], q.fields['pos'].items[0], q.fields['pos'].items[1])]
                on_bdy = z3.Or(z3.And(px == xa, qx == xa), z3.And(px == xb, qx == xb), z3.And(py == ya, qy == ya), z3.And(py == yb, qy == yb))
                if not _valid(e, on_bdy):
                    out['no_node_inside_another_columns_edge'].append('edge %r-%r of column %r has no partner and is not on the domain boundary' % (p.fields['name'], q.fields['name'], c.fields['name']))
    # the name lists are what a fresh recomputation gives (evaluated last: it refreshes them)
    bl, cl = list(f['block_name_list']), list(f['block_connection_name_list'])
    bi, ci = dict(f['block_name_index']), dict(f['block_connection_name_index'])
    e.call(e.getattr(geo, 'setup_block_name_index'), [])
    e.call(e.getattr(geo, 'setup_block_connection_name_index'), [])
    bad = out['name_lists_are_a_fresh_recomputation']
    if bl != f['block_name_list'] or bi != f['block_name_index']:
        bad.append('block name list %r, fresh recomputation %r' % (bl, f['block_name_list']))
    if cl != f['block_connection_name_list'] or ci != f['block_connection_name_index']:
        bad.append('block connection name list differs from a fresh recomputation (%d / %d entries)' % (len(cl), len(f['block_connection_name_list'])))
    if len(set(bl)) != len(bl) or any(len(n) != 5 for n in bl):
        bad.append('block names are not distinct 5-character strings')
    return out


def plan_area(e, geo):
    return sum([to_real(c.fields['area']) for c in geo.fields['columnlist']], z3.RealVal(0))


def rock_volume(e, geo):
    bottom = to_real(geo.fields['layerlist'][-1].fields['bottom'])
    return sum([to_real(c.fields['area']) * (to_real(e.getattr(c, 'surface')) - bottom) for c in geo.fields['columnlist']], z3.RealVal(0))


def cols(geo, idx):
    return [geo.fields['columnlist'][k] for k in idx]


def _other_layers(e, nz):
    """Another real geometry whose layer structure is copied: nz layers of independent symbolic thicknesses from a symbolic top."""
    m = e.load_module('mulgrids').globals
    dz = [e.sym_real('cdz%d' % k) for k in range(nz)]
    for v in dz:
        e.assume(v > 0)
    return e.call(e.getattr(e.call(m['mulgrid'], []), 'rectangular'), [[1], [1], dz], {'origin': [0, 0, e.sym_real('coz')]})


def _wells(e, g):
    m = e.load_module('mulgrids').globals
    for nm in ('w   1', 'w   2'):
        w = e.call(m['well'], [nm, [NVec([e.sym_real(nm[-1] + 'x%d' % k), e.sym_real(nm[-1] + 'y%d' % k), e.sym_real(nm[-1] + 'z%d' % k)]) for k in range(2)]])
        e.call(e.getattr(g, 'add_well'), [w])
    e.call(e.getattr(g, 'add_well'), [e.call(m['well'], ['w   1', [NVec([0, 0, 0])]])])      # same name again: no new well
    e.call(e.getattr(g, 'delete_well'), ['w   1'])


OPS = {
    'delete_column':      lambda e, g, a: e.call(e.getattr(g, 'delete_column'), [g.fields['columnlist'][a[0]].fields['name']]),
    'rename_column':      lambda e, g, a: e.call(e.getattr(g, 'rename_column'), [g.fields['columnlist'][a[0]].fields['name'], ' zz']),
    'rename_swap':        lambda e, g, a: e.call(e.getattr(g, 'rename_column'), [[g.fields['columnlist'][a[0]].fields['name'], g.fields['columnlist'][a[1]].fields['name']],
                                                                            [g.fields['columnlist'][a[1]].fields['name'], g.fields['columnlist'][a[0]].fields['name']]]),
    'rename_layer':       lambda e, g, a: e.call(e.getattr(g, 'rename_layer'), [g.fields['layerlist'][a[0]].fields['name'], 'zz']),
    'split_column':       lambda e, g, a: e.call(e.getattr(g, 'split_column'), [g.fields['columnlist'][a[0]].fields['name'], g.fields['columnlist'][a[0]].fields['node'][a[1]].fields['name']]),
    'refine':             lambda e, g, a: e.call(e.getattr(g, 'refine'), [cols(g, a)] if a else []),
    'refine_bisect':      lambda e, g, a: e.call(e.getattr(g, 'refine'), [cols(g, a)], {'bisect': True}),
    'refine_bisect_x':    lambda e, g, a: e.call(e.getattr(g, 'refine'), [cols(g, a)], {'bisect': 'x'}),
    'refine_bisect_edge': lambda e, g, a: e.call(e.getattr(g, 'refine'), [cols(g, a[:2])], {'bisect': 'x', 'bisect_edge_columns': cols(g, a[2:])}),
    'refine_edge':        lambda e, g, a: e.call(e.getattr(g, 'refine'), [cols(g, a[1:1 + a[0]])], {'bisect_edge_columns': cols(g, a[1 + a[0]:])}),
    'refine_layers':      lambda e, g, a: e.call(e.getattr(g, 'refine_layers'), [[g.fields['layerlist'][k] for k in a[:-1]]], {'factor': a[-1]}),
    'decompose_columns':  lambda e, g, a: e.call(e.getattr(g, 'decompose_columns'), [cols(g, a)] if a else []),
    'reduce':             lambda e, g, a: e.call(e.getattr(g, 'reduce'), [cols(g, a)]),
    'delete_layer':       lambda e, g, a: e.call(e.getattr(g, 'delete_layer'), [g.fields['layerlist'][a[0]].fields['name']]),
    'translate':          lambda e, g, a: e.call(e.getattr(g, 'translate'), [NVec([e.sym_real('tx'), e.sym_real('ty'), e.sym_real('tz')])]),
    'copy_layers_from':   lambda e, g, a: e.call(e.getattr(g, 'copy_layers_from'), [_other_layers(e, a[0])]),
    'wells':              lambda e, g, a: _wells(e, g),
    'rotate90':           lambda e, g, a: e.call(e.getattr(g, 'rotate'), [90 * a[0], NVec([e.sym_real('rcx'), e.sym_real('rcy')])]),
    'snap_to_layers':     lambda e, g, a: e.call(e.getattr(g, 'snap_columns_to_layers'), [e.sym_real('snap', 0)]),
    'snap_to_nearest':    lambda e, g, a: e.call(e.getattr(g, 'snap_columns_to_nearest_layers'), []),
    'delete_connection':  lambda e, g, a: e.call(e.getattr(g, 'delete_connection'), [tuple(c.fields['name'] for c in g.fields['connectionlist'][a[0]].fields['column'])]),
}
# operations after which the mesh is not promised to be valid (a connection or a column was taken out on purpose)
NOT_VALID = ('delete_connection', 'delete_column', 'delete_layer', 'split_column')


def p_edit(e, arg):
    shape, nsurf, op, a = arg
    tag = '[%s%s on %dx%dx%d, %d surfaces]' % (op, tuple(a), shape[0], shape[1], shape[2], nsurf)
    def prog(e):
        geo, S = build_rect(e, shape[0], shape[1], shape[2], shape[3], 0, nsurf)
        pre = [v for g in GROUPS for v in wf(e, geo)[g]]
        if pre:
            e.fail('requires:constructed_geometry_is_well_formed' + tag, '; '.join(pre[:3])); return
        e.prove(True, 'requires:constructed_geometry_is_well_formed' + tag)
        area0, vol0 = plan_area(e, geo), rock_volume(e, geo)
        ncol0 = len(geo.fields['columnlist'])
        try:
            OPS[op](e, geo, a)
        except PyExc as ex:
            e.fail('post:operation_completes' + tag, 'raises %s: %s' % (ex.cls, ex.msg)); return
        e.prove(True, 'post:operation_completes' + tag)
        dom = None
        if op not in NOT_VALID and op not in ('reduce', 'rotate90'):
            t = [to_real(geo.fields['nodelist'][0].fields['pos'].items[k]) - to_real(S['org'][k]) for k in (0, 1)] if op == 'translate' else [0, 0]
            dom = (S['org'][0] + t[0], S['org'][0] + sum(S['dx']) + t[0], S['org'][1] + t[1], S['org'][1] + sum(S['dy']) + t[1])
        post = wf(e, geo, valid_mesh=op not in NOT_VALID, domain=dom)
        for g in GROUPS:
            if g == 'no_missing_or_extra_connections_no_orphan_nodes' and op in NOT_VALID:
                continue
            if g == 'no_node_inside_another_columns_edge' and dom is None:
                continue
            if post[g]:
                e.fail('post:%s%s' % (g, tag), '; '.join(post[g][:3]))
            else:
                e.prove(True, 'post:%s%s' % (g, tag))
        # the library's own diagnosis (missing / extra connections, orphans) is what exhaustive search over the heap gives
        gf = geo.fields
        idset = lambda xs: set(id(x) for x in xs)
        want_missing = set()
        for i, ca in enumerate(gf['columnlist']):
            for cb in gf['columnlist'][i + 1:]:
                shared = [n for n in ca.fields['node'] if any(n is m for m in cb.fields['node'])]
                if len(shared) >= 2 and not any(idset(k.fields['column']) == idset([ca, cb]) for k in gf['connectionlist']):
                    want_missing.add(tuple(sorted((ca.fields['name'], cb.fields['name']))))
        want_orphans = set(n.fields['name'] for n in gf['nodelist'] if not any(any(n is m for m in c.fields['node']) for c in gf['columnlist']))
        try:
            got_missing = set(tuple(sorted(c.fields['name'] for c in k.fields['column'])) for k in e.getattr(geo, 'missing_connections'))
            got_orphans = set(n.fields['name'] for n in e.getattr(geo, 'orphans'))
            if got_missing == want_missing and got_orphans == want_orphans:
                e.prove(True, 'post:missing_connections_and_orphans_report_exactly_what_is_missing' + tag)
            else:
                e.fail('post:missing_connections_and_orphans_report_exactly_what_is_missing' + tag, 'missing %r reported %r; orphans %r reported %r' % (sorted(want_missing), sorted(got_missing), sorted(want_orphans), sorted(got_orphans)))
        except PyExc as ex:
            e.fail('post:missing_connections_and_orphans_report_exactly_what_is_missing' + tag, 'raises %s: %s' % (ex.cls, ex.msg))
        if op in ('refine', 'refine_bisect', 'refine_bisect_x', 'refine_bisect_edge', 'refine_edge', 'split_column', 'decompose_columns', 'refine_layers', 'rename_column', 'rename_swap', 'rename_layer', 'translate', 'rotate90'):
            e.prove(_valid(e, plan_area(e, geo) == area0), 'post:total_plan_area_unchanged' + tag)
            if op != 'translate':
                e.prove(_valid(e, rock_volume(e, geo) == vol0), 'post:total_rock_volume_unchanged' + tag)
        if op in ('refine', 'refine_bisect', 'refine_bisect_x', 'refine_bisect_edge', 'refine_edge', 'split_column'):
            e.prove(len(geo.fields['columnlist']) > ncol0, 'cover:columns_were_added' + tag)
        if op in C11_OPS and op != 'refine_layers':
            # tiling: every new column lies inside one old column (the rectangles of the construction), inherits its surface,
            # and the new columns inside an old one add up to its area
            nx, ny = shape[0], shape[1]
            rects = []
            for j in range(ny):
                for i in range(nx):
                    x0 = S['org'][0] + sum(S['dx'][:i]); y0 = S['org'][1] + sum(S['dy'][:j])
                    rects.append((x0, x0 + S['dx'][i], y0, y0 + S['dy'][j]))
            sums = [z3.RealVal(0)] * len(rects)
            lost, wrong_surface = [], []
            for c in geo.fields['columnlist']:
                pts = [(to_real(n.fields['pos'].items[0]), to_real(n.fields['pos'].items[1])) for n in c.fields['node']]
                home = None
                for k, (xa, xb, ya, yb) in enumerate(rects):
                    if _valid(e, z3.And(*[z3.And(x >= xa, x <= xb, y >= ya, y <= yb) for x, y in pts])):
                        home = k; break
                if home is None:
                    lost.append(c.fields['name']); continue
                sums[home] = sums[home] + to_real(c.fields['area'])
                if not _valid(e, to_real(e.getattr(c, 'surface')) == to_real(S['surf'][home])):
                    wrong_surface.append(c.fields['name'])
            if lost:
                e.fail('post:every_new_column_lies_inside_one_old_column' + tag, 'columns %r' % lost)
            else:
                e.prove(True, 'post:every_new_column_lies_inside_one_old_column' + tag)
            if wrong_surface:
                e.fail('post:new_columns_inherit_the_surface_of_the_old_column' + tag, 'columns %r' % wrong_surface)
            else:
                e.prove(True, 'post:new_columns_inherit_the_surface_of_the_old_column' + tag)
            e.prove(all(_valid(e, sums[k] == S['area'][k]) for k in range(len(rects))), 'post:new_columns_inside_an_old_column_add_up_to_its_area' + tag)
    e.explore(prog, 'edit')


def p_edit_sequence(e, arg):
    """Two real editing operations in a row: the invariant holds after each (the second starts from a geometry that is no
    longer a plain rectangular grid), areas and volumes are conserved by the conserving operations."""
    shape, nsurf, steps = arg
    tag = '[%s on %dx%dx%d, %d surfaces]' % (' then '.join('%s%s' % (op, tuple(a)) for op, a in steps), shape[0], shape[1], shape[2], nsurf)
    conserving = ('refine', 'refine_bisect', 'refine_bisect_x', 'refine_layers', 'rename_column', 'rename_swap', 'rename_layer', 'translate', 'rotate90', 'decompose_columns', 'snap_to_nearest_keep')
    def prog(e):
        geo, S = build_rect(e, shape[0], shape[1], shape[2], shape[3], 0, nsurf)
        area0, vol0 = plan_area(e, geo), rock_volume(e, geo)
        for k, (op, a) in enumerate(steps):
            try:
                OPS[op](e, geo, a)
            except PyExc as ex:
                e.fail('post:operation_%d_completes' % (k + 1) + tag, 'raises %s: %s' % (ex.cls, ex.msg)); return
            post = wf(e, geo, valid_mesh=True)
            for g in GROUPS:
                if g == 'no_node_inside_another_columns_edge':
                    continue
                name = 'post:%s_after_operation_%d%s' % (g, k + 1, tag)
                if post[g]:
                    e.fail(name, '; '.join(post[g][:3]))
                else:
                    e.prove(True, name)
        if all(op in conserving for op, a in steps):
            e.prove(_valid(e, plan_area(e, geo) == area0), 'post:total_plan_area_unchanged' + tag)
            e.prove(_valid(e, rock_volume(e, geo) == vol0), 'post:total_rock_volume_unchanged' + tag)
    e.explore(prog, 'edit_sequence')


SEQUENCES = [((2, 2, 2, 0), 1, (('refine', (0,)), ('refine_layers', (1, 2)))), ((2, 2, 2, 0), 1, (('rename_column', (1,)), ('refine', (1,)))), ((2, 2, 2, 0), 1, (('refine_bisect', (0,)), ('refine', (1,)))),
             ((2, 2, 2, 0), 1, (('translate', ()), ('rotate90', (1,)))), ((2, 2, 3, 0), 1, (('refine_layers', (1, 2)), ('snap_to_layers', ()))), ((3, 2, 2, 0), 1, (('refine', (0, 1)), ('rename_swap', (0, 2))))]
SEQUENCES_THOROUGH = [((3, 3, 2, 0), 1, (('refine', (4,)), ('refine', (0,)))), ((2, 2, 2, 0), 1, (('refine', ()), ('refine_layers', (1, 2)))), ((3, 2, 2, 0), 1, (('refine_bisect_x', (0, 1)), ('reduce', (0,)))),
                      ((2, 2, 3, 0), 2, (('snap_to_nearest', ()), ('refine', (0,)))), ((2, 2, 2, 1), 1, (('rotate90', (2,)), ('refine', (3,))))]

EDITS = [((2, 2, 2, 0), 1, 'delete_column', (0,)), ((2, 2, 2, 1), 1, 'delete_column', (3,)), ((2, 2, 2, 2), 1, 'rename_column', (1,)), ((2, 2, 2, 0), 1, 'rename_swap', (0, 3)),
         ((2, 2, 2, 0), 1, 'rename_layer', (1,)), ((2, 2, 2, 0), 1, 'split_column', (0, 0)), ((2, 2, 2, 0), 1, 'split_column', (3, 1)),
         ((2, 2, 2, 0), 1, 'refine', ()), ((2, 2, 2, 0), 1, 'refine', (0,)), ((3, 1, 2, 0), 0, 'refine', (0,)), ((3, 2, 2, 0), 0, 'refine', (0, 1)), ((2, 2, 2, 0), 1, 'refine_bisect', (0,)), ((2, 2, 2, 0), 1, 'refine_bisect_x', (0, 2)), ((3, 3, 2, 0), 0, 'refine_bisect_edge', (4, 5, 3)), ((3, 2, 2, 0), 1, 'refine_bisect_edge', (1, 2, 0)), ((4, 3, 2, 0), 0, 'refine_edge', (2, 5, 6, 4, 7, 1, 2, 9, 10)),
         ((2, 2, 3, 0), 1, 'refine_layers', (1, 2)), ((2, 2, 3, 1), 1, 'refine_layers', (2, 3, 3)), ((2, 2, 2, 0), 1, 'decompose_columns', ()), ((2, 2, 2, 0), 1, 'reduce', (0, 1)),
         ((2, 2, 3, 0), 1, 'delete_layer', (3,)), ((2, 2, 3, 0), 1, 'delete_layer', (1,)), ((2, 2, 2, 0), 1, 'translate', ()), ((2, 2, 2, 0), 1, 'rotate90', (1,)), ((2, 2, 2, 0), 1, 'copy_layers_from', (3,)), ((2, 1, 3, 1), 2, 'copy_layers_from', (2,)), ((2, 2, 2, 0), 1, 'wells', ()), ((3, 2, 2, 0), 1, 'rotate90', (2,)), ((2, 2, 3, 0), 2, 'snap_to_layers', ()),
         ((2, 2, 3, 0), 2, 'snap_to_nearest', ()), ((2, 2, 2, 0), 1, 'delete_connection', (0,))]

PROGRAMS = [('p_edit', x) for x in EDITS] + [('p_edit_sequence', x) for x in SEQUENCES]
# the operations of C11 (refine / bisect / split / decompose / refine_layers): area, volume, conformity obligations are shared
C11_OPS = ('refine', 'refine_bisect', 'refine_bisect_x', 'refine_bisect_edge', 'refine_edge', 'split_column', 'decompose_columns', 'refine_layers')
PROGRAMS_C11 = [('p_edit', x) for x in EDITS if x[2] in C11_OPS]


EDITS_THOROUGH = [((3, 3, 2, 0), 1, 'refine', (4,)), ((3, 3, 2, 0), 1, 'refine', (0, 1, 3)), ((3, 3, 2, 1), 2, 'refine', (4, 5, 7, 8)), ((3, 3, 2, 0), 0, 'refine_bisect', (4,)), ((3, 3, 2, 0), 0, 'refine_bisect_x', (3, 4, 5)),
                  ((4, 3, 2, 0), 1, 'refine', (5, 6)), ((3, 3, 2, 2), 1, 'delete_column', (4,)), ((3, 3, 2, 0), 1, 'rename_swap', (0, 8)), ((3, 2, 4, 0), 2, 'refine_layers', (1, 2, 3, 2)), ((3, 2, 3, 0), 2, 'refine_layers', (2, 4)),
                  ((3, 3, 3, 0), 3, 'snap_to_layers', ()), ((3, 3, 3, 0), 3, 'snap_to_nearest', ()), ((3, 3, 2, 0), 1, 'reduce', (0, 1, 3, 4)), ((3, 3, 2, 0), 1, 'translate', ()), ((3, 3, 2, 0), 1, 'decompose_columns', ()),
                  ((4, 4, 2, 0), 0, 'refine_edge', (4, 5, 6, 9, 10, 1, 2, 4, 7, 8, 11, 13, 14)), ((3, 3, 2, 0), 1, 'delete_connection', (5,)), ((3, 3, 3, 0), 1, 'delete_layer', (2,))]


def programs(tier):
    return PROGRAMS + ([('p_edit', x) for x in EDITS_THOROUGH] + [('p_edit_sequence', x) for x in SEQUENCES_THOROUGH] if tier == 'thorough' else [])


def programs_c11(tier):
    return PROGRAMS_C11 + ([('p_edit', x) for x in EDITS_THOROUGH if x[2] in C11_OPS] if tier == 'thorough' else [])


def replay(obname, model, result):
    if result['program'] != 'p_edit':
        return None
    name = obname.split('[')[0]
    clause = {'post:operation_completes': 'completes', 'post:total_plan_area_unchanged': 'area', 'post:total_rock_volume_unchanged': 'volume'}.get(name)
    if clause is None and name.startswith('post:') and name[5:] in GROUPS:
        clause = name[5:]
    if clause is None and name in ('post:every_new_column_lies_inside_one_old_column', 'post:new_columns_inherit_the_surface_of_the_old_column', 'post:new_columns_inside_an_old_column_add_up_to_its_area'):
        clause = 'tiling'
    if clause is None and name == 'post:missing_connections_and_orphans_report_exactly_what_is_missing':
        clause = 'diagnosis'
    if clause is None:
        return None
    return ("from contracts.c10_native import native_edit\nok, detail = native_edit(%r, %r, %r)\n") % (result['arg'], model or {}, clause)
