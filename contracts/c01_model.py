"""The data object of the C01 whole-file obligation, built through a backend so that the symbolic
program (pyvc values, real constructors run by the executor) and the native replay (CPython, values
from the solver's model) construct the same model from the same text."""


class NativeBackend(object):
    """CPython: real classes, numbers from a solver model (name -> value), defaults otherwise."""
    def __init__(self, values=None):
        self.values, self.count = values or {}, 0

    def _val(self, name):
        v = self.values.get(name)
        if isinstance(v, dict):
            return float(int(v['num'])) / float(int(v['den']))
        return v

    def real(self, name, lo=None, hi=None):
        self.count += 1
        v = self._val(name)
        if v is None or v == 0:
            v = 1.0 + 0.37 * self.count           # a default the fields carry exactly; distinct per name
            if hi is not None: v = min(v, hi)
        return float(v)

    def int(self, name, lo, hi):
        v = self._val(name)
        return int(v) if v is not None else lo

    def new(self, mod, cls, args=(), kwargs=None):
        import importlib
        return getattr(importlib.import_module(mod), cls)(*args, **(kwargs or {}))

    def fields(self, o): return o.__dict__
    def method(self, o, name, *args): return getattr(o, name)(*args)
    def vec(self, items):
        import numpy as np
        return np.array(items)
    def nonzero(self, v): pass


def build_model(B, flavour, shape):
    """A data object with every section kind present that the flavour allows: concrete structure
    (names, list lengths from `shape`), symbolic numeric content."""
    d = B.new('t2data', 't2data')
    f = B.fields(d)
    R, I = B.real, B.int
    f['title'] = 'whole-file round trip'
    if flavour == 'AUTOUGH2':
        f['simulator'] = 'AUTOUGH2.2EW'
    grid = f['grid']
    # rock types: nad None / 1 / 2 (with relative permeability and capillarity lines)
    for k, nad in enumerate((None, 1, 2)[:shape.get('rocks', 3)]):
        rt = B.new('t2grids', 'rocktype', ['rock%d' % k, nad, R('dens%d' % k), R('por%d' % k), [R('k%d_%d' % (k, j)) for j in range(3)], R('cond%d' % k), R('sh%d' % k)])
        if nad:
            B.fields(rt).update(compressibility=R('comp%d' % k), expansivity=R('expa%d' % k), dry_conductivity=R('cdry%d' % k), tortuosity=R('tort%d' % k),
                             klinkenberg=R('klin%d' % k))
        if nad == 2:
            B.fields(rt)['relative_permeability'] = {'type': I('rptype', 1, 9), 'parameters': [R('rp%d' % j) for j in range(7)]}
            B.fields(rt)['capillarity'] = {'type': I('cptype', 1, 9), 'parameters': [R('cp%d' % j) for j in range(7)]}
        B.method(grid, 'add_rocktype', rt)
    rts = B.fields(grid)['rocktypelist']
    names = ['  a 1', '  a 2', ' bb 1', ' bb10'][:shape.get('blocks', 4)]
    for k, nm in enumerate(names):
        centre = B.vec([R('x%d' % k), R('y%d' % k), R('z%d' % k)]) if k % 2 == 0 else None
        blk = B.new('t2grids', 't2block', [nm, R('vol%d' % k), rts[k % len(rts)]], {'centre': centre, 'ahtx': R('ahtx%d' % k) if k == 1 else None,
                                                                               'pmx': R('pmx%d' % k) if k == 2 else None})
        B.method(grid, 'add_block', blk)
    bl = B.fields(grid)['blocklist']
    for k, (i, j) in enumerate([(0, 1), (0, 2), (2, 3)][:max(0, len(bl) - 1)]):
        con = B.new('t2grids', 't2connection', [[bl[i], bl[j]], I('isot%d' % k, 1, 3), [R('d1_%d' % k), R('d2_%d' % k)], R('area%d' % k), R('beta%d' % k),
                                         R('sig%d' % k) if k == 0 else None])
        B.method(grid, 'add_connection', con)
    # parameters
    par = f['parameter']
    par.update(max_iterations=I('noite', 1, 99), print_level=I('kdata', 1, 3), max_timesteps=I('mcyc', 1, 9999), print_interval=I('mcypr', 1, 9999),
               tstart=R('tstart'), tstop=R('tstop'), max_timestep=R('delt_max'), gravity=R('gf'), timestep_reduction=R('redlt'), scale=R('scale'),
               relative_error=R('re1'), absolute_error=R('re2'), upstream_weight=R('wup'), newton_weight=R('wnr'), derivative_increment=R('dfac'),
               print_block=names[1] if len(names) > 1 else None)
    nts = shape.get('timesteps', 9)
    par['const_timestep'] = -(-(-nts // 8)) if nts else R('delten', 0)
    par['timestep'] = [R('dt%d' % k) for k in range(nts)] if nts else [par['const_timestep']]
    par['default_incons'] = [R('dep%d' % k) for k in range(shape.get('incons', 5))]
    par['option'] = B.vec([0] + [(7 * k + 3) % 10 for k in range(1, 25)])       # concrete digits here; symbolic digits: p_options
    if flavour == 'TOUGH2':
        f['more_option'] = B.vec([0] + [(3 * k + 1) % 10 for k in range(1, 22)])
        f['solver'] = {'type': I('matslv', 1, 6), 'z_precond': 'Z1', 'o_precond': 'O0', 'relative_max_iterations': R('rit'), 'closure': R('clos')}
        f['noversion'] = True
        f['selection'] = {'integer': [2] + [I('ie%d' % k, 0, 9) for k in range(1, 16)], 'float': [R('fe%d' % k) for k in range(16)]}
        f['multi'] = {'num_components': 2, 'num_equations': 3, 'num_phases': 2, 'num_secondary_parameters': 8}
        f['diffusion'] = [[R('df%d_%d' % (c, ph)) for ph in range(2)] for c in range(2)]
        f['history_block'] = [bl[0], bl[-1]]
        f['history_connection'] = [B.fields(grid)['connectionlist'][0]] if B.fields(grid)['connectionlist'] else []
        f['history_generator'] = [bl[0]]
    else:
        f['lineq'] = {'type': I('lqtype', 0, 3), 'epsilon': R('lqeps'), 'max_iterations': I('lqit', 1, 999), 'gauss': I('lqg', 0, 1), 'num_orthog': I('lqno', 1, 99)}
        f['multi'] = {'num_components': 1, 'num_equations': 2, 'num_phases': 2, 'num_secondary_parameters': 6, 'eos': 'EW'}
    f['start'] = True
    f['relative_permeability'] = {'type': I('rptype0', 1, 9), 'parameters': [R('rpp%d' % j) for j in range(7)]}
    f['capillarity'] = {'type': I('cptype0', 1, 9), 'parameters': [R('cpp%d' % j) for j in range(7)]}
    nt = shape.get('times', 9)
    if nt:
        f['output_times'] = {'num_times_specified': nt, 'num_times': nt + 1, 'max_timestep': R('otmax'), 'time_increment': R('otinc'), 'time': [R('ot%d' % k) for k in range(nt)]}
    # generators: a constant one, and table generators with / without enthalpies
    gens = [dict(name='gen 1', block=names[0], type='MASS', gx=R('gx0'), ex=R('ex0')),
            dict(name='gen 2', block=names[-1], type='MASS', ltab=shape.get('ltab', 5), itab='', gx=None, ex=None,
                 time=[R('gt%d' % k) for k in range(shape.get('ltab', 5))], rate=[R('gr%d' % k) for k in range(shape.get('ltab', 5))]),
            dict(name='gen 3', block=names[0], type='HEAT', ltab=shape.get('ltab', 5) + 3, itab='E', gx=None, ex=None, nseq=I('gnseq', 1, 9), nadd=I('gnadd', 1, 9), nads=I('gnads', 1, 9),
                 time=[R('ht%d' % k) for k in range(shape.get('ltab', 5) + 3)], rate=[R('hr%d' % k) for k in range(shape.get('ltab', 5) + 3)],
                 enthalpy=[R('hh%d' % k) for k in range(shape.get('ltab', 5) + 3)])]
    for kw in gens[:shape.get('gens', 3)]:
        B.method(d, 'add_generator', B.new('t2data', 't2generator', [], kw))
    if flavour == 'AUTOUGH2' and shape.get('short', True):
        f['short_output'] = {'frequency': 5, 'block': [bl[1]], 'connection': list(B.fields(grid)['connectionlist'][:1]), 'generator': list(f['generatorlist'][:1])}
    f['incon'] = dict((names[k], [R('ipor%d' % k) if k else None, [R('iv%d_%d' % (k, j)) for j in range(2 + k)]] + ([I('inseq', 1, 9), I('inadd', 1, 9)] if k == 1 else []))
                      for k in range(min(3, len(names))))
    f['indom'] = {'rock0': [R('dom%d' % j) for j in range(3)]}
    f['meshmaker'] = [('rz2d', [('radii', {'radii': [R('rad%d' % k) for k in range(shape.get('radii', 9))]}),
                               ('equid', {'nequ': I('nequ', 1, 99), 'dr': R('dr')}),
                               ('logar', {'nlog': I('nlog', 1, 99), 'rlog': R('rlog'), 'dr': R('dr2')}),
                               ('layer', {'layer': [R('lay%d' % k) for k in range(shape.get('layers', 3))]})]),
                      ('xyz', [R('deg'), {'ntype': 'NX', 'no': 2, 'del': R('delx')}, {'ntype': 'NZ', 'no': 9, 'del': 0, 'deli': [R('dz%d' % k) for k in range(9)]}])]
    B.nonzero(f['meshmaker'][1][1][1]['del'])       # del == 0 announces a 'deli' list (the NZ entry)
    if shape.get('end'):
        f['end_keyword'] = shape['end']
    ap = shape.get('after_param')
    if ap:
        # a legal non-canonical section order: the section `ap` directly after PARAM ('END': PARAM last)
        order = B.method(d, 'get_present_sections')
        if ap == 'END':
            order = [k for k in order if k != 'PARAM'] + ['PARAM']
        elif ap in order:
            order = [k for k in order if k != ap]
            order.insert(order.index('PARAM') + 1, ap)
        f['_sections'] = list(order)
    return d


# ---------------------------------------------------------------------------------------------
# native replay of the whole-file obligation (CPython, real files in a scratch directory)

SECTION_CONTENT = {
    'SIMUL': ['simulator'], 'ROCKS': ['grid.rocktypelist'], 'PARAM': ['parameter'], 'MOMOP': ['more_option'], 'START': ['start'], 'NOVER': ['noversion'],
    'RPCAP': ['relative_permeability', 'capillarity'], 'LINEQ': ['lineq'], 'SOLVR': ['solver'], 'MULTI': ['multi'], 'TIMES': ['output_times'],
    'SELEC': ['selection'], 'DIFFU': ['diffusion'], 'ELEME': ['grid.blocklist'], 'CONNE': ['grid.connectionlist'], 'MESHM': ['meshmaker'],
    'GENER': ['generatorlist'], 'SHORT': ['short_output'], 'FOFT': ['history_block'], 'COFT': ['history_connection'], 'GOFT': ['history_generator'],
    'INCON': ['incon'], 'INDOM': ['indom']}


def _nsame(a, b, path, bad, depth=0):
    import numpy as np
    if len(bad) > 8 or depth > 12:
        return
    if hasattr(a, '__dict__') and hasattr(b, '__dict__') and not isinstance(a, type):
        for k in sorted(set(a.__dict__) | set(b.__dict__)):
            if k in ('rocktype', 'block', 'connection_name', 'generator', 'connection') and isinstance(a.__dict__.get(k), (dict, set)):
                continue
            if k not in a.__dict__ or k not in b.__dict__:
                bad.append('%s.%s present on one side only' % (path, k)); continue
            _nsame(a.__dict__[k], b.__dict__[k], '%s.%s' % (path, k), bad, depth + 1)
        return
    if isinstance(a, np.ndarray): a = list(a)
    if isinstance(b, np.ndarray): b = list(b)
    if isinstance(a, (list, tuple)) and isinstance(b, (list, tuple)):
        if len(a) != len(b):
            bad.append('%s: %d items written, %d read' % (path, len(a), len(b))); return
        for k, (x, y) in enumerate(zip(a, b)):
            _nsame(x, y, '%s[%d]' % (path, k), bad, depth + 1)
        return
    if isinstance(a, dict) and isinstance(b, dict):
        ka, kb = [k for k in a if a[k] is not None], [k for k in b if b[k] is not None]
        if set(ka) != set(kb):
            bad.append('%s: keys %r written, %r read' % (path, ka, kb)); return
        for k in ka:
            _nsame(a[k], b[k], '%s[%r]' % (path, k), bad, depth + 1)
        return
    if isinstance(a, str) and isinstance(b, str):
        if not (a == b or (len(a) != len(b) and a.strip() == b.strip())):
            bad.append('%s: %r written, %r read' % (path, a, b))
        return
    if a is None or b is None or isinstance(a, (str, bool)) or isinstance(b, (str, bool)):
        if not (a is b or a == b):
            bad.append('%s: %r written, %r read' % (path, a, b))
        return
    try:
        close = abs(float(a) - float(b)) <= 2e-3 * max(abs(float(a)), abs(float(b))) + 1e-300
    except Exception:
        close = a == b
    if not close:
        bad.append('%s: %r written, %r read' % (path, a, b))


def _get(d, path):
    for k in path.split('.'):
        d = getattr(d, k)
    return d


def native_roundtrip(flavour, mesh, xp, shape, values):
    """write; read; compare; write again - on the real files.  Returns (ok, detail)."""
    import os, tempfile, shutil
    import t2data as T
    name = lambda x: x if isinstance(x, (str, tuple)) else (x.name if hasattr(x, 'name') else tuple(k.name for k in x.block))
    for vals in (values, dict((k, v) for k, v in (values or {}).items() if not (isinstance(v, dict) and int(v.get('num', 1)) == 0))):
        d = build_model(NativeBackend(vals), flavour, shape)
        tmp = tempfile.mkdtemp(dir='/var/tmp')
        try:
            fn, mf = os.path.join(tmp, 'model.dat'), os.path.join(tmp, 'MESH')
            kw = {'meshfilename': mf} if mesh else {}
            wkw = dict(kw)
            if xp:
                wkw.update(extra_precision=xp[0], echo_extra_precision=xp[1])
            d.write(fn, **wkw)
            first = dict((f, open(os.path.join(tmp, f)).read()) for f in sorted(os.listdir(tmp)))
            h = T.t2data(fn, **kw)
            bad = []
            drop = ('ELEME', 'CONNE') if mesh else ()
            so = lambda x: [k for k in x if k not in drop]
            if so(h._sections) != so(d._sections):
                bad.append('sections written %r read %r' % (d._sections, h._sections))
            if h.title != d.title or h.end_keyword != d.end_keyword or h.type != flavour:
                bad.append('title / flavour / end keyword differ')
            if xp and (list(h.extra_precision) != list(d.extra_precision) or h.echo_extra_precision != d.echo_extra_precision):
                bad.append('extra precision %r echo %r read as %r echo %r' % (d.extra_precision, d.echo_extra_precision, h.extra_precision, h.echo_extra_precision))
            for sec in T.t2data_sections:
                if sec not in d._sections and sec not in d.extra_precision and not (mesh and sec in drop):
                    continue
                for path in SECTION_CONTENT[sec]:
                    a, b = _get(d, path), _get(h, path)
                    if sec in ('FOFT', 'COFT', 'GOFT') and (mesh or d._sections.index(sec) < d._sections.index('ELEME')):
                        a, b = [name(x) for x in a], [name(x) for x in b]
                    _nsame(a, b, path, bad)
            h.write(fn, **kw)
            second = dict((f, open(os.path.join(tmp, f)).read()) for f in sorted(os.listdir(tmp)))
            strip = lambda t: [l.rstrip() for l in t.split('\n')]
            if sorted(first) != sorted(second) or any(strip(first[f]) != strip(second[f]) for f in first):
                diff = [f for f in first if f not in second or strip(first[f]) != strip(second[f])]
                lines = []
                for f in diff[:1]:
                    for x, y in zip(strip(first[f]), strip(second.get(f, ''))):
                        if x != y:
                            lines.append('%r -> %r' % (x, y)); break
                bad.append('second write differs from the first in %r: %s' % (diff, '; '.join(lines)))
            h2 = T.t2data(fn, **kw)
            _nsame(d.parameter, h2.parameter, 'fresh object: parameter', bad)
            _nsame(d.parameter, h.parameter, 'first object after the second was read: parameter', bad)
            _nsame(h._sections, h2._sections, 'fresh object: _sections', bad)
            if bad:
                return False, '; '.join(bad[:5])
        except Exception as ex:
            import traceback
            return False, '%s: %s @ %s' % (type(ex).__name__, ex, traceback.format_exc()[-300:])
        finally:
            shutil.rmtree(tmp)
    return True, 'round trip exact on the model values and on the defaults'
