"""C16 - contracts on fixed_format_file.fortran_float / fortran_int (real source).

The Fortran meaning of a field is specified independently here (`fortran_real_spec`):
a single left-to-right pass over the raw field that skips blanks, accepts an optional
sign, a mantissa with optional point, and an exponent introduced by E/e/D/d (optional
sign) or by a bare sign.  It returns (accepted, neg, mant, nfrac, exp): the value is
(-1)^neg * mant * 10^(exp - nfrac).  The contract of fortran_float is that for every
accepted field the string finally handed to CPython's float() is accepted by CPython and
decodes to the same parts (A3: CPython's float() is correctly rounded).
"""
import z3
from pyvc import library as L
from pyvc import values as V
from pyvc.values import SymStr, z_and, z_or, z_not, z_eq, char_in, to_int, to_bool, PyExc, concretize, NAN

FUNCS = ['fixed_format_file.fortran_float', 'fixed_format_file.fortran_int']
NUMCHARS = '0123456789+-.eEdD '


def fortran_real_spec(s):
    """Independent specification automaton over the raw field (blanks ignored, BN mode).
    states: 0 start, 1 after mantissa sign, 2 int digits, 3 point after digits, 4 point
    without digits, 5 frac digits, 6 after exponent letter, 7 after exponent sign,
    8 exponent digits, 9 dead."""
    s = SymStr.of(s)
    NS = 10
    st = [False] * NS
    st[0] = True
    neg, eneg = False, False
    mant, nfrac, exp = z3.IntVal(0), z3.IntVal(0), z3.IntVal(0)
    for k in range(s.cap):
        c = s.chars[k]
        inlen = V._lt(k, s.n)
        blank = z_eq(c, 32)
        act = z_and(inlen, z_not(blank))
        d = V.is_digit_c(c)
        dv = to_int(c) - 48
        sg = char_in(c, '+-')
        minus = z_eq(c, 45)
        pt = z_eq(c, 46)
        ee = char_in(c, 'eEdD')
        nxt = [False] * NS
        nxt[1] = z_and(st[0], sg)
        nxt[2] = z_and(z_or(st[0], st[1], st[2]), d)
        nxt[3] = z_and(st[2], pt)
        nxt[4] = z_and(z_or(st[0], st[1]), pt)
        nxt[5] = z_and(z_or(st[3], st[4], st[5]), d)
        nxt[6] = z_and(z_or(st[2], st[3], st[5]), ee)
        # exponent sign: after the letter, or directly after the mantissa (letter dropped)
        nxt[7] = z_and(z_or(st[6], st[2], st[3], st[5]), sg)
        nxt[8] = z_and(z_or(st[6], st[7], st[8]), d)
        nxt[9] = z_not(z_or(*nxt[:9]))
        in_mant = z_or(nxt[2], nxt[5])
        mant = z3.If(to_bool(z_and(act, in_mant)), 10 * mant + dv, mant)
        nfrac = z3.If(to_bool(z_and(act, nxt[5])), nfrac + 1, nfrac)
        exp = z3.If(to_bool(z_and(act, nxt[8])), 10 * exp + dv, exp)
        neg = z_or(neg, z_and(act, nxt[1], minus))
        eneg = z_or(eneg, z_and(act, nxt[7], minus))
        st = [V.z_ite_bool(act, b, a) for a, b in zip(st, nxt)]
    accepted = z_or(st[2], st[3], st[5], st[8])
    exp = z3.If(to_bool(eneg), -exp, exp)
    return accepted, neg, concretize(mant), concretize(nfrac), concretize(exp)


def _call(e, fn, args, kwargs=None):
    """Call and classify: ('value', v) or ('raise', cls)."""
    try:
        return 'value', e.call(fn, args, kwargs or {})
    except PyExc as ex:
        return 'raise', ex.cls


BLANK_SENTINEL = -987654321


def p_float(e, arg):
    maxlen, heavy = arg
    f = e.get_function('fixed_format_file.fortran_float')
    def prog(e):
        s = e.sym_str('s', maxlen=maxlen) if maxlen >= 0 else e.sym_str('s', length=-maxlen - 1)
        kind, r = _call(e, f, [s], {'blank_value': BLANK_SENTINEL})
        tag = ('[len<=%d]' % maxlen) if maxlen >= 0 else ('[len=%d]' % (-maxlen - 1))
        # safety: no text makes the reader raise
        if kind == 'raise':
            e.fail('safety:fortran_float_never_raises' + tag, 'raises %s' % r)
            return
        e.prove(True, 'safety:fortran_float_never_raises' + tag)
        allblank = V.str_all(SymStr.of(s), V.is_space_c)
        isblankval = (not V.is_z3(r)) and isinstance(r, int) and r == BLANK_SENTINEL
        # blank field <=> blank value
        e.prove(z3.BoolVal(isblankval) == to_bool(allblank), 'post:blank_field_gives_blank_value' + tag)
        py_ok = V.float_grammar_accept(s)
        if not heavy:
            if isinstance(r, L.FloatOfStr):
                e.prove(z_or(z_not(py_ok), L.equals(e, r.s, s)), 'post:python_accepted_same_result' + tag)
            else:
                e.prove(z_not(py_ok), 'post:python_accepted_same_result' + tag)
            return
        if isinstance(r, L.FloatOfStr):
            arg = r.s
            # anything Python accepts gives Python's result: the converted string is s itself
            e.prove(z_or(z_not(py_ok), L.equals(e, arg, s)), 'post:python_accepted_same_result' + tag)
            # Fortran meaning
            acc, neg, mant, nfrac, ex = fortran_real_spec(s)
            n2, m2, f2, e2 = V.float_decode(arg)
            same = z_and(to_bool(neg) == to_bool(n2), mant == m2, nfrac == f2, ex == e2)
            e.prove(z_or(z_not(acc), same), 'post:fortran_meaning' + tag)
        else:
            e.prove(z_not(py_ok), 'post:python_accepted_same_result' + tag)
            acc, neg, mant, nfrac, ex = fortran_real_spec(s)
            e.prove(z_not(acc), 'post:fortran_real_is_read' + tag)
        # garbage: a character that cannot occur in a number, and not something Python accepts
        # after blank removal  =>  nan
        garbage = V.str_any(SymStr.of(s), lambda c: z_not(char_in(c, NUMCHARS)))
        py_compact = V.float_grammar_accept(V.str_remove_char(L._lower(e, s), ' '))
        is_nan = isinstance(r, V.NaN)
        has_us = V.str_any(SymStr.of(s), lambda c: z_eq(c, 95))
        e.prove(z_or(z_not(z_and(garbage, z_not(has_us), z_not(py_ok), z_not(py_compact))), is_nan), 'post:garbage_gives_nan' + tag)
        # underscores between digits: CPython's float() accepts them, so a field that needs the
        # Fortran canonicalisation (D exponent, embedded blanks, dropped letter) and contains one
        # is read as a number although '_' cannot occur in a Fortran number (known finding)
        e.prove(z_or(z_not(z_and(garbage, has_us, z_not(py_ok), z_not(py_compact))), is_nan), 'post:garbage_with_underscore_gives_nan' + tag)
    e.explore(prog, 'fortran_float')


def int_spec(s):
    """Fortran integer field: blanks ignored, optional sign, digits."""
    s = SymStr.of(s)
    st = [True, False, False, False]   # start, sign, digits, dead
    val, neg = z3.IntVal(0), False
    for k in range(s.cap):
        c = s.chars[k]
        act = z_and(V._lt(k, s.n), z_not(z_eq(c, 32)))
        d = V.is_digit_c(c)
        sg = char_in(c, '+-')
        nxt = [False] * 4
        nxt[1] = z_and(st[0], sg)
        nxt[2] = z_and(z_or(st[0], st[1], st[2]), d)
        nxt[3] = z_not(z_or(nxt[1], nxt[2]))
        val = z3.If(to_bool(z_and(act, nxt[2])), 10 * val + (to_int(c) - 48), val)
        neg = z_or(neg, z_and(act, nxt[1], z_eq(c, 45)))
        st = [V.z_ite_bool(act, b, a) for a, b in zip(st, nxt)]
    return st[2], concretize(z3.If(to_bool(neg), -val, val))


def p_int(e, arg):
    maxlen, heavy = arg
    f = e.get_function('fixed_format_file.fortran_int')
    def prog(e):
        s = e.sym_str('s', maxlen=maxlen)
        kind, r = _call(e, f, [s], {'blank_value': BLANK_SENTINEL})
        tag = '[len<=%d]' % maxlen
        if kind == 'raise':
            e.fail('safety:fortran_int_never_raises' + tag, 'raises %s' % r)
            return
        e.prove(True, 'safety:fortran_int_never_raises' + tag)
        allblank = V.str_all(SymStr.of(s), V.is_space_c)
        if not heavy:
            e.prove(z_or(z_not(allblank), L.equals(e, r, BLANK_SENTINEL)) if r is not None else z_not(allblank), 'post:blank_field_gives_blank_value' + tag)
            return
        acc, val = int_spec(s)
        pyacc, pyval = V.int_grammar(s)
        if r is None:
            e.prove(z_not(z_or(acc, pyacc, allblank)), 'post:none_only_for_non_integers' + tag)
        else:
            # blank <=> blank value; otherwise the value of the digits
            e.prove(z_or(z_not(allblank), L.equals(e, r, BLANK_SENTINEL)), 'post:blank_field_gives_blank_value' + tag)
            e.prove(z_or(z_not(acc), L.equals(e, r, val)), 'post:fortran_integer_value' + tag)
            e.prove(z_or(z_not(pyacc), L.equals(e, r, pyval)), 'post:python_accepted_same_result' + tag)
            garbage = V.str_any(SymStr.of(s), lambda c: z_not(char_in(c, '0123456789+- _')))
            e.prove(z_not(garbage), 'post:garbage_gives_none' + tag)
    e.explore(prog, 'fortran_int')


def p_read_function_table(e, _arg=None):
    """fortran_read_function maps e,f,g to the float reader and d to the int reader, both
    with blank value None."""
    def prog(e):
        mod = e.load_module('fixed_format_file')
        tab = mod.globals['fortran_read_function']
        ff, fi = mod.globals['fortran_read_float'], mod.globals['fortran_read_int']
        e.prove(all(tab[k] is ff for k in 'efg') and tab['d'] is fi, 'table:fortran_read_function')
        e.prove(isinstance(ff, L.PartialVal) and ff.func is mod.globals['fortran_float'] and ff.kwargs == {'blank_value': None} and
                isinstance(fi, L.PartialVal) and fi.func is mod.globals['fortran_int'] and fi.kwargs == {'blank_value': None},
                'table:fortran_read_partials')
        r = e.call(ff, ['     '])
        e.prove(r is None, 'post:fortran_read_float_blank_is_none')
    e.explore(prog, 'table')


def programs(tier):
    if tier == 'quick':
        return [('p_float', (20, False)), ('p_float', (6, True)), ('p_int', (20, False)), ('p_int', (7, True)),
                ('p_read_function_table', None)]
    # fixed lengths 7, 8, 9 for the value clauses of fortran_float (each ~1-7 min of solver time), integers up to 13
    return [('p_float', (20, False)), ('p_float', (6, True)), ('p_float', (-8, True)), ('p_float', (-9, True)), ('p_float', (-10, True)),
            ('p_int', (20, False)), ('p_int', (13, True)), ('p_read_function_table', None)]


def replay(obname, model, result):
    m = model or {}
    if 's' not in m:
        return None
    fn = 'fortran_float' if result['program'] == 'p_float' else 'fortran_int'
    return ("import math\n"
            "from fixed_format_file import fortran_float, fortran_int\n"
            "import sys; sys.path.insert(0, '/verif')\n"
            "from bounded.fortran_ref import check_float, check_int\n"
            "s = %r\n"
            "ok, detail = (check_float if %r == 'fortran_float' else check_int)(s, %s)\n") % (m['s'], fn, fn)
