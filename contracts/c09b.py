"""C09 - the real t2grid.minc on the 4-block ring of contracts.c09 (symbolic volumes) with symbolic volume fractions:
each original block keeps its total volume, split among its continua in the requested (normalised) fractions, chained
fracture -> matrix 1 -> ... -> innermost matrix, rock types duplicated, grid well formed.

The inversion of the proximity function (scipy.optimize.bisect) is external: invert_proximity is replaced by an
uninterpreted pair of reals (it only decides connection distances and interface areas, which the statement does not
constrain); passing an explicit linear proximity function keeps the remaining geometry arithmetic polynomial."""
import z3
from pyvc.engine import Obj, NVec, Builtin
from pyvc import library as L
from pyvc.values import PyExc, Unsupported, to_real
from contracts.c09 import make_grid, wf, NAMES, _valid

FUNCS = ['t2grids.t2grid.minc']


def p_minc(e, arg):
    nlev, which = arg
    tag = '[%d levels, %s]' % (nlev, which)
    def prog(e):
        grid = make_grid(e)
        f = grid.fields
        vols = dict((b.fields['name'], b.fields['volume']) for b in f['blocklist'])
        for v in vols.values():
            e.assume(z3.And(v > 0, v < 10 ** 24))                     # active blocks (below atmos_volume)
        vf = [e.sym_real('vf%d' % k) for k in range(nlev)]
        for v in vf:
            e.assume(v > 0)
        blocks = None if which == 'all' else [NAMES[1], NAMES[3]]
        nconn0 = len(f['connectionlist'])
        e.opaque['t2grid.minc.invert_proximity'] = lambda eng, args, kwargs: (eng.sym_real(eng.fresh('xm'), 0), eng.sym_real(eng.fresh('xr'), 0))
        e.assumptions_used.add('minc.invert_proximity (scipy bisect) is external: it returns an unconstrained pair of non-negative reals')
        e.assume_nonzero_div = True              # distances and areas divide by proximity values; not part of the statement
        try:
            idx = e.call(e.getattr(grid, 'minc'), [list(vf)], {'blocks': blocks, 'spacing': 50})
        except PyExc as ex:
            e.fail('post:minc_completes' + tag, 'raises %s: %s' % (ex.cls, ex.msg)); return
        e.prove(True, 'post:minc_completes' + tag)
        total = sum(vf[1:], vf[0])
        done = NAMES if blocks is None else blocks
        okv, okchain, okrock, why = True, True, True, ''
        for nm in NAMES:
            b0 = f['block'][nm]
            if nm not in done:
                okv = okv and _valid(e, to_real(b0.fields['volume']) == to_real(vols[nm]))
                continue
            chain = [b0]
            for m in range(1, nlev):
                mn = str(m) + nm[len(str(m)):]
                if mn not in f['block']:
                    okchain, why = False, 'matrix block %r missing' % mn; break
                chain.append(f['block'][mn])
            if len(chain) != nlev:
                continue
            # volumes: the requested fractions of the original volume, adding up to it
            for m, blk in enumerate(chain):
                if not _valid(e, to_real(blk.fields['volume']) * total == to_real(vols[nm]) * vf[m]):
                    okv, why = False, 'block %r volume %s' % (blk.fields['name'], blk.fields['volume'])
            if not _valid(e, sum(to_real(blk.fields['volume']) for blk in chain) == to_real(vols[nm])):
                okv, why = False, 'continua of %r do not add up to its volume' % nm
            # chained fracture -> matrix 1 -> ... -> innermost
            for m in range(nlev - 1):
                key = (chain[m].fields['name'], chain[m + 1].fields['name'])
                if key not in f['connection']:
                    okchain, why = False, 'no connection %r' % (key,)
            for m in range(1, nlev):
                others = [k for k in f['connection'] if chain[m].fields['name'] in k]
                if len(others) != (2 if m < nlev - 1 else 1):
                    okchain, why = False, 'matrix block %r has connections %r' % (chain[m].fields['name'], others)
            for m, blk in enumerate(chain):
                want = 'dfalt' if m == 0 else 'Xfalt'
                if blk.fields['rocktype'].fields['name'] != want or f['rocktype'].get(want) is not blk.fields['rocktype']:
                    okrock, why = False, 'block %r rock type %r' % (blk.fields['name'], blk.fields['rocktype'].fields['name'])
        for name, ok in (('post:each_block_keeps_its_total_volume_split_in_the_requested_fractions', okv), ('post:continua_chained_fracture_to_innermost_matrix', okchain),
                         ('post:minc_rock_types_registered', okrock)):
            if ok:
                e.prove(True, name + tag)
            else:
                e.fail(name + tag, why)
        e.prove(len(f['blocklist']) == len(NAMES) + len(done) * (nlev - 1) and len(f['connectionlist']) == nconn0 + len(done) * (nlev - 1), 'post:exactly_the_minc_blocks_and_connections_are_added' + tag)
        e.prove(wf(grid), 'post:grid_well_formed_after_minc' + tag)
    e.explore(prog, 'minc')


PROGRAMS = [('p_minc', (2, 'all')), ('p_minc', (3, 'all')), ('p_minc', (3, 'two blocks')), ('p_minc', (4, 'two blocks'))]


def replay(obname, model, result):
    if result['program'] != 'p_minc':
        return None
    nlev, which = result['arg']
    m = model or {}
    def val(k, d):
        v = m.get(k)
        return (float(int(v['num'])) / float(int(v['den']))) if isinstance(v, dict) else (float(v) if v is not None else d)
    vf = [val('vf%d' % k, 0.1 + 0.2 * k) or (0.1 + 0.2 * k) for k in range(nlev)]
    vols = [val('vol%d' % k, 100. + 10 * k) or (100. + 10 * k) for k in range(4)]
    return ("import numpy as np\nfrom t2grids import *\n"
            "g = t2grid(); rt = rocktype(); g.add_rocktype(rt)\nnames = ['  a 1', '  b 1', '  c 1', '  d 1']\n"
            "for k, n in enumerate(names): g.add_block(t2block(n, %r[k], rt, centre=np.array([1. * k, 2. * k, 0.])))\n"
            "for a, b in [(0, 1), (1, 2), (2, 3), (0, 3)]: g.add_connection(t2connection([g.block[names[a]], g.block[names[b]]], 1, [1., 2.], 3., 0.))\n"
            "vf = %r; blocks = %r\nvols = dict((b.name, b.volume) for b in g.blocklist)\n"
            "g.minc(list(vf), blocks=blocks, spacing=50)\n"
            "done = names if not blocks else blocks\nok, detail = True, ''\nnv = np.array(vf) / sum(vf)\n"
            "for n in done:\n"
            "    chain = [g.block[n]] + [g.block.get(str(m) + n[len(str(m)):]) for m in range(1, len(vf))]\n"
            "    if any(c is None for c in chain): ok, detail = False, 'missing matrix block of %%r' %% n; break\n"
            "    if any(abs(c.volume - vols[n] * nv[m]) > 1e-9 * vols[n] for m, c in enumerate(chain)) or abs(sum(c.volume for c in chain) - vols[n]) > 1e-9 * vols[n]: ok, detail = False, 'volumes of %%r: %%r of %%r' %% (n, [c.volume for c in chain], vols[n])\n"
            "    if any((chain[m].name, chain[m + 1].name) not in g.connection for m in range(len(vf) - 1)): ok, detail = False, 'chain of %%r broken' %% n\n"
            "ok = ok and g.check(silent=True) in (True, None, False)\n") % (vols, vf, None if which == 'all' else ['  b 1', '  d 1'])
