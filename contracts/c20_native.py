"""Native replay of the C20 conversion + file round trip obligation (CPython, real files)."""
import os, tempfile, shutil


def _snap(d):
    import numpy as np
    L = lambda x: [float(v) for v in x]
    return {'blocks': [(b.name, b.volume, b.rocktype.name, None if b.centre is None else L(b.centre)) for b in d.grid.blocklist],
            'connections': [(tuple(b.name for b in c.block), c.direction, L(c.distance), c.area, c.dircos) for c in d.grid.connectionlist],
            'rocks': [(r.name, r.density, r.porosity, L(r.permeability), r.specific_heat) for r in d.grid.rocktypelist],
            'generators': [(g.block, g.name, g.type, g.gx, g.ex, L(g.time), L(g.rate), L(g.enthalpy)) for g in d.generatorlist]}


def native_convert_roundtrip(arg, values, clause):
    import t2data as T
    from contracts.c01_model import build_model, NativeBackend, _nsame, _get, SECTION_CONTENT
    source, mp = arg
    target = 'TOUGH2' if source == 'AUTOUGH2' else 'AUTOUGH2'
    name = lambda x: x if isinstance(x, (str, tuple)) else (x.block if hasattr(x, 'gx') else (x.name if hasattr(x, 'name') else tuple(k.name for k in x.block)))
    d = build_model(NativeBackend(values), source, {'timesteps': 9})
    if source == 'AUTOUGH2':
        names = [b.name for b in d.grid.blocklist]
        for kw in (dict(name='gen 9', block=names[1], type='CO2 ', gx=2.5, ex=3.5), dict(name='gen 8', block=names[1], type='RECH', gx=1.5), dict(name='gen 1', block=names[0], type='TRAC', gx=4.5), dict(name='gen 6', block=names[2], type='COM3', gx=5.5)):
            d.add_generator(T.t2generator(**kw))
    before = _snap(d)
    hist = {'FOFT': [name(x) for x in d.history_block], 'SHORT': [name(x) for x in d.short_output.get('block', [])] if d.short_output else []}
    d.update_sections()
    try:
        if source == 'AUTOUGH2': d.convert_to_TOUGH2(warn=False, MP=mp)
        else: d.convert_to_AUTOUGH2(warn=False, MP=mp)
    except Exception as ex:
        return False, 'conversion raises %s: %s' % (type(ex).__name__, ex)
    d.update_sections()
    bad = []
    if d.type != target: bad.append('model declares %s' % d.type)
    if target == 'TOUGH2':
        if d.simulator or d.lineq or d.short_output or 'eos' in d.multi or any(k in d._sections for k in ('SIMUL', 'LINEQ', 'SHORT')): bad.append('AUTOUGH2-specific content remains: %r' % d._sections)
        if [name(x) for x in d.history_block] != hist['SHORT']: bad.append('short output blocks %r became history blocks %r' % (hist['SHORT'], [name(x) for x in d.history_block]))
    else:
        if not d.simulator or d.solver or d.history_block or d.history_connection or d.history_generator or any(k in d._sections for k in ('SOLVR', 'FOFT', 'COFT', 'GOFT')): bad.append('TOUGH2-specific content remains: %r' % d._sections)
        if [name(x) for x in d.short_output.get('block', [])] != hist['FOFT']: bad.append('history blocks %r became short output blocks %r' % (hist['FOFT'], [name(x) for x in d.short_output.get('block', [])]))
    after = _snap(d)
    for k in ('blocks', 'connections', 'rocks'):
        _nsame(before[k], after[k], k, bad)
    allowed = ['HEAT', 'WATE', 'AIR ', 'MASS', 'DELV']
    kept = []
    for g in before['generators']:
        t = 'COM2' if g[2] == 'CO2 ' else g[2]
        if target == 'AUTOUGH2' or t in allowed or t.startswith('COM'): kept.append(g[:2] + (t,) + g[3:])
    _nsame(kept, after['generators'], 'generators', bad)
    keys = [(g.block, g.name) for g in d.generatorlist]
    if set(d.generator.keys()) != set(keys) or any(not any(d.generator[k] is g for g in d.generatorlist) for k in d.generator): bad.append('generator lookup keys %r, generators %r' % (sorted(d.generator.keys()), keys))
    tmp = tempfile.mkdtemp(dir='/var/tmp')
    try:
        fn = os.path.join(tmp, 'model.dat')
        d.write(fn); first = open(fn).read()
        h = T.t2data(fn)
        if h._sections != d._sections: bad.append('sections written %r read %r' % (d._sections, h._sections))
        if h.type != target: bad.append('re-read model declares %s' % h.type)
        for sec in d._sections:
            for path in SECTION_CONTENT[sec]:
                a, b = _get(d, path), _get(h, path)
                if sec in ('FOFT', 'COFT', 'GOFT'): a, b = [name(x) for x in a], [name(x) for x in b]
                _nsame(a, b, path, bad)
        h.write(fn)
        if [l.rstrip() for l in first.split('\n')] != [l.rstrip() for l in open(fn).read().split('\n')]: bad.append('second write differs from the first')
    except Exception as ex:
        bad.append('file round trip raises %s: %s' % (type(ex).__name__, ex))
    finally:
        shutil.rmtree(tmp)
    return (not bad), '; '.join(bad[:4]) or 'converted model is clean and survives the round trip'
