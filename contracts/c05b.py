"""C05 - the layout inference of a TOUGH2-family table, as setup_table_TOUGH2 and read_table_TOUGH2 chain it, on rows of a
printed layout: the real start_of_values, key_positions and parse_table_line (with its re.finditer) run on a format-detection
row, the real key_from_line and read_table_line_TOUGH2 on a data row of the same layout.  Both rows are symbolic in every
digit, every sign and every exponent sign; the layout - (1X, A5, I6, 3E12.5), the element table of TOUGH2 - and the printed
form of each field are the concrete structure (listed under assume):

  E2   s0.dddddEpdd     the normal form                         (s: blank or '-', p: '+' or '-', d: digit)
  N3   s0.dddddpddd     3-digit exponent, letter dropped (what Ew.d prints)
  E3   s0.ddddEpddd     3-digit exponent with the letter in the same field width

Postcondition, from the statement: every cell of the data row is read from characters that contain the whole printed field
of its column and nothing of any other field (so the cell is the number printed in that row and column, by C16), and the
row key is the printed name.  Two instances reproduce the recorded findings (a letter-less or lettered 3-digit exponent
directly followed by a full-width negative number on the format-detection row)."""
import z3
from pyvc.engine import Obj
from pyvc import library as L
from pyvc.values import PyExc, SymStr, to_int

FUNCS = ['t2listing.t2listing.start_of_values', 't2listing.t2listing.key_positions', 't2listing.t2listing.parse_table_line',
         't2listing.t2listing.read_table_line_TOUGH2', 't2listing.listingtable.key_from_line']

NF = 3
# the printed layouts: (1X, A5, I6, 3E12.5) - the element table of TOUGH2 - and (3X, A5, 2X, A5, I6, 3E13.6) - its connection table
TABLES = {'element': dict(prefix='  AA 1     ', keys=[(1, ' AA 1')], mant=5, cols=['P', 'T', 'SG']),
          'connection': dict(prefix='       1      2     ', keys=[(3, '    1'), (10, '    2')], mant=6, cols=['FLOH', 'FLOH/FLOF', 'FLOF'])}
for _t in TABLES.values():
    _t['field0'] = len(_t['prefix']) + 1; _t['width'] = _t['mant'] + 7


def templates(mant):
    return {'E2': 's0.' + 'd' * mant + 'Epdd', 'N3': 's0.' + 'd' * mant + 'pddd', 'E3': 's0.' + 'd' * (mant - 1) + 'Epddd'}


def build_row(e, name, forms, T):
    """the key(s) and the blanks of the index field, one symbolic index digit, then the fields; returns (SymStr, sign characters)"""
    chars = [ord(c) for c in T['prefix']]
    TEMPLATES = templates(T['mant'])
    signs = []
    def sym(k, lo_hi=None, among=None):
        c = z3.Int('%s[%d]' % (name, k))
        e.assume(z3.And(c >= lo_hi[0], c <= lo_hi[1]) if lo_hi else z3.Or(*[c == ord(a) for a in among]))
        return c
    chars.append(sym(len(chars), (48, 57)))
    for f in forms:
        for t in TEMPLATES[f]:
            k = len(chars)
            if t == 'd': chars.append(sym(k, (48, 57)))
            elif t == 's': chars.append(sym(k, among=' -')); signs.append(chars[-1])
            elif t == 'p': chars.append(sym(k, among='+-'))
            else: chars.append(ord(t))
    s = SymStr(chars)
    e.inputs[name] = s
    return s, signs


def p_layout(e, arg):
    lforms, dforms, kind = arg[:3]
    table = arg[3] if len(arg) > 3 else 'element'
    T = TABLES[table]
    tag = '[layout row %s, data row %s%s%s]' % ('/'.join(lforms), '/'.join(dforms), ', ' + kind if kind else '', '' if table == 'element' else ', %s table' % table)
    def prog(e):
        m = e.load_module('t2listing')
        calls = []
        def ff(eng, args, kwargs):
            calls.append(args[0])
            return z3.Real('ff%d' % (len(calls) - 1))
        e.opaque['fortran_float'] = ff
        e.find_branches = True          # str.find decides the position by branching: concrete column positions on every path
        row1, s1 = build_row(e, 'layout_row', lforms, T)
        row2, s2 = build_row(e, 'data_row', dforms, T)
        if not kind:
            # the quantifier ("numbers of the same printed form"): a 3-digit exponent on the format-detection row is followed by a blank
            for i, f in enumerate(lforms[:-1]):
                if f != 'E2': e.assume(s1[i + 1] == 32)
        elif kind in ('noE abutting', 'E3 abutting'):
            e.assume(s1[1] == 45)
        cols = T['cols']; nk = len(T['keys'])
        FIELD0, WIDTH = T['field0'], T['width']
        names = [k for (_p, k) in T['keys']]
        me = Obj(m.globals['t2listing'])
        G = lambda q: e.get_function('t2listing.t2listing.' + q)
        try:
            start = e.call(G('start_of_values'), [me, row1, cols])
            keypos = e.call(G('key_positions'), [me, e.getslice(row1, None, start, None), nk])
            if not keypos: raise PyExc('Exception', 'Error parsing %s table keys: table not created.' % table)
            numpos = e.call(G('parse_table_line'), [me, row1, start, cols])
            fmt = {'key': keypos, 'index': e.getitem(keypos, -1) + 5, 'values': numpos}
            tab = e.call(m.globals['listingtable'], [cols, [names[0] if nk == 1 else tuple(names)]], {'row_format': fmt, 'num_keys': nk})
            key = e.call(e.get_function('t2listing.listingtable.key_from_line'), [tab, row2])
            res = e.call(G('read_table_line_TOUGH2'), [me, row2, len(cols), fmt])
        except PyExc as ex:
            e.fail('post:table_is_set_up_and_read' + tag, 'raises %s: %s' % (ex.cls, ex.msg if isinstance(ex.msg, str) else '(message built from the row)')); return
        e.prove(True, 'post:table_is_set_up_and_read' + tag)
        fixed = [e.call(e.get_function('mulgrids.fix_blockname'), [k]) for k in names]
        e.prove(L.equals(e, key, fixed[0] if nk == 1 else tuple(fixed)) is True, 'post:row_key_is_the_printed_name' + tag)
        ok = len(res) == len(cols) and len(calls) == NF
        if ok:
            for i in range(NF):
                want = e.getslice(row2, FIELD0 + WIDTH * i, FIELD0 + WIDTH * (i + 1), None)
                got = calls[i]
                # the characters handed to fortran_float: the whole printed field, and blanks only from elsewhere
                ok = ok and _same_nonblank(e, got, want) and L.equals(e, res[i], z3.Real('ff%d' % i)) is True
        e.prove(ok, 'post:cell_is_read_from_exactly_its_printed_field' + tag)
    e.explore(prog, 'layout')


def _same_nonblank(e, got, want):
    """got (a slice of the data row on this path) without blanks is the printed field without blanks - decided as validity"""
    g, w = SymStr.of(got), SymStr.of(want)
    if not (g.fixed and w.fixed): return False
    # the printed fields have a blank at the sign column only: drop from got the leading / trailing characters that are
    # blank for every row of the path, then got must be the field, or the field without a sign column that is always blank
    gc = list(g.chars); wc = list(w.chars)
    def is_blank_valid(c):
        return c == 32 if isinstance(c, int) else e.valid(c == 32, record=False)
    while gc and is_blank_valid(gc[0]): gc.pop(0)
    while gc and is_blank_valid(gc[-1]): gc.pop()
    # want = sign + body; got must be body or sign + body
    if len(gc) == len(wc):
        return e.valid(z3.And(*[to_int(a) == to_int(b) for a, b in zip(gc, wc)]))
    if len(gc) == len(wc) - 1:
        return e.valid(z3.And(to_int(wc[0]) == 32, *[to_int(a) == to_int(b) for a, b in zip(gc, wc[1:])]))
    return False


ALL_E2 = ('E2', 'E2', 'E2')
LAYOUTS = [(ALL_E2, ALL_E2, ''), (ALL_E2, ('N3', 'E3', 'N3'), ''), (('N3', 'E2', 'N3'), ALL_E2, ''), (('E3', 'E3', 'E2'), ('E2', 'N3', 'E3'), ''), (('E2', 'N3', 'E3'), ('E3', 'E2', 'N3'), ''),
           (('N3', 'E2', 'E2'), ALL_E2, 'noE abutting'), (('E3', 'E2', 'E2'), ALL_E2, 'E3 abutting')]
LAYOUTS += [(ALL_E2, ('E2', 'N3', 'E3'), '', 'connection'), (('N3', 'E3', 'E2'), ALL_E2, '', 'connection'), (('E3', 'N3', 'N3'), ('N3', 'E2', 'E3'), '', 'connection')]
PROGRAMS = [('p_layout', a) for a in LAYOUTS]


def programs(tier):
    """thorough: every combination of printed forms on the format-detection row, for both tables"""
    if tier != 'thorough':
        return PROGRAMS
    import itertools
    forms = ('E2', 'N3', 'E3')
    extra = []
    for k, lf in enumerate(itertools.product(forms, repeat=NF)):
        for table in ('element', 'connection'):
            a = (lf, tuple(forms[(k + j) % 3] for j in range(NF)), '') + (() if table == 'element' else (table,))
            if a not in LAYOUTS: extra.append(a)
    return PROGRAMS + [('p_layout', a) for a in extra]


def replay(obname, model, result):
    m = model or {}
    if 'layout_row' not in m or 'data_row' not in m:
        return None
    table = result['arg'][3] if len(result['arg']) > 3 else 'element'
    return ("from contracts.c05_native import native_layout\nok, detail = native_layout(%r, %r, %r)\n") % (m['layout_row'], m['data_row'], table)
