"""C05 - the layout inference of a TOUGH2-family table, as setup_table_TOUGH2 and read_table_TOUGH2 chain it, on rows of a
printed layout: the real start_of_values, key_positions and parse_table_line (with its re.finditer) run on a format-detection
row, the real key_from_line and read_table_line_TOUGH2 on a data row of the same layout.  Both rows are symbolic in every
digit, every sign and every exponent sign; the layout - (1X, A5, I6, 3E12.5), the element table of TOUGH2 - and the printed
form of each field are the concrete structure (listed under assume):

  E2   s0.dddddEpdd     the normal form                         (s: blank or '-', p: '+' or '-', d: digit)
  N3   s0.dddddpddd     3-digit exponent, letter dropped (what Ew.d prints)
  E3   s0.ddddEpddd     3-digit exponent with the letter in the same field width

Postcondition, from the statement: every cell of the data row is read from characters that contain the whole printed field
of its column and nothing of any other field (so the cell is the number printed in that row and column, by C16), and the
row key is the printed name.  Two instances reproduce the recorded findings (a letter-less or lettered 3-digit exponent
directly followed by a full-width negative number on the format-detection row)."""
import z3
from pyvc.engine import Obj, Builtin
from pyvc import library as L
from pyvc.values import PyExc, SymStr, to_int

FUNCS = ['t2listing.t2listing.setup_table_AUTOUGH2', 't2listing.t2listing.read_table_AUTOUGH2', 't2listing.t2listing.skip_table_AUTOUGH2', 't2listing.t2listing.parse_table_header_AUTOUGH2',
         't2listing.t2listing.read_table_line_AUTOUGH2', 't2listing.t2listing.skip_to_blank', 't2listing.t2listing.skip_to_nonblank', 't2listing.t2listing.setup_table_TOUGH2', 't2listing.t2listing.read_table_TOUGH2', 't2listing.t2listing.skip_table_TOUGH2', 't2listing.t2listing.parse_table_header_TOUGH2',
         't2listing.t2listing.skip_to_results_line', 't2listing.t2listing.start_of_values', 't2listing.t2listing.key_positions', 't2listing.t2listing.parse_table_line',
         't2listing.t2listing.read_table_line_TOUGH2', 't2listing.listingtable.key_from_line', 't2listing.t2listing.is_results_line',
         't2listing.t2listing.table_expected_floats']

NF = 3
# the printed layouts: (1X, A5, I6, 3E12.5) - the element table of TOUGH2 - and (3X, A5, 2X, A5, I6, 3E13.6) - its connection table
TABLES = {'element': dict(prefix='  AA 1     ', keys=[(1, ' AA 1')], mant=5, cols=['P', 'T', 'SG']),
          'connection': dict(prefix='       1      2     ', keys=[(3, '    1'), (10, '    2')], mant=6, cols=['FLOH', 'FLOH/FLOF', 'FLOF'])}
# AUTOUGH2: (2X, A5, I6, 3(1X, E12.5)) - blank-separated values read by split()
TABLES['element AUTOUGH2'] = dict(prefix='  GS  1     ', keys=[(2, 'GS  1')], mant=5, lead=' ', cols=['Pressure', 'Temperature', 'Gas saturati'])
for _t in TABLES.values():
    _t['field0'] = len(_t['prefix']) + 1; _t['width'] = _t['mant'] + 7 + len(_t.get('lead', ''))


def templates(mant, lead=''):
    return {'E2': lead + 's0.' + 'd' * mant + 'Epdd', 'N3': lead + 's0.' + 'd' * mant + 'pddd', 'E3': lead + 's0.' + 'd' * (mant - 1) + 'Epddd'}


def build_row(e, name, forms, T, index=None, keys=None, fixed_signs=None):
    """the key(s) and the blanks of the index field, one symbolic index digit, then the fields; returns (SymStr, sign characters)"""
    chars = [ord(c) for c in T['prefix']]
    for (pos, _k), k in zip(T['keys'], keys or []):        # other printed names in the key columns
        chars[pos: pos + 5] = [ord(c) for c in k]
    TEMPLATES = templates(T['mant'], T.get('lead', ''))
    signs = []
    def sym(k, lo_hi=None, among=None):
        c = z3.Int('%s[%d]' % (name, k))
        e.assume(z3.And(c >= lo_hi[0], c <= lo_hi[1]) if lo_hi else z3.Or(*[c == ord(a) for a in among]))
        return c
    chars.append(sym(len(chars), (48, 57)) if index is None else 48 + index)
    for f in forms:
        for t in TEMPLATES[f]:
            k = len(chars)
            if t == 'd': chars.append(sym(k, (48, 57)))
            elif t == 's': chars.append(sym(k, among=' -') if fixed_signs is None else ord(fixed_signs[len(signs)])); signs.append(chars[-1])
            elif t == 'p': chars.append(sym(k, among='+-'))
            else: chars.append(ord(t))
    s = SymStr(chars)
    e.inputs[name] = s
    return s, signs


def p_layout(e, arg):
    lforms, dforms, kind = arg[:3]
    table = arg[3] if len(arg) > 3 else 'element'
    T = TABLES[table]
    tag = '[layout row %s, data row %s%s%s]' % ('/'.join(lforms), '/'.join(dforms), ', ' + kind if kind else '', '' if table == 'element' else ', %s table' % table)
    def prog(e):
        m = e.load_module('t2listing')
        calls = []
        def ff(eng, args, kwargs):
            calls.append(args[0])
            return z3.Real('ff%d' % (len(calls) - 1))
        e.opaque['fortran_float'] = ff
        e.find_branches = True          # str.find decides the position by branching: concrete column positions on every path
        row1, s1 = build_row(e, 'layout_row', lforms, T)
        row2, s2 = build_row(e, 'data_row', dforms, T)
        if not kind:
            # the quantifier ("numbers of the same printed form"): a 3-digit exponent on the format-detection row is followed by a blank
            for i, f in enumerate(lforms[:-1]):
                if f != 'E2': e.assume(s1[i + 1] == 32)
        elif kind in ('noE abutting', 'E3 abutting'):
            e.assume(s1[1] == 45)
        cols = T['cols']; nk = len(T['keys'])
        FIELD0, WIDTH = T['field0'], T['width']
        names = [k for (_p, k) in T['keys']]
        me = Obj(m.globals['t2listing'])
        G = lambda q: e.get_function('t2listing.t2listing.' + q)
        try:
            start = e.call(G('start_of_values'), [me, row1, cols])
            keypos = e.call(G('key_positions'), [me, e.getslice(row1, None, start, None), nk])
            if not keypos: raise PyExc('Exception', 'Error parsing %s table keys: table not created.' % table)
            numpos = e.call(G('parse_table_line'), [me, row1, start, cols])
            fmt = {'key': keypos, 'index': e.getitem(keypos, -1) + 5, 'values': numpos}
            tab = e.call(m.globals['listingtable'], [cols, [names[0] if nk == 1 else tuple(names)]], {'row_format': fmt, 'num_keys': nk})
            key = e.call(e.get_function('t2listing.listingtable.key_from_line'), [tab, row2])
            res = e.call(G('read_table_line_TOUGH2'), [me, row2, len(cols), fmt])
        except PyExc as ex:
            e.fail('post:table_is_set_up_and_read' + tag, 'raises %s: %s' % (ex.cls, ex.msg if isinstance(ex.msg, str) else '(message built from the row)')); return
        e.prove(True, 'post:table_is_set_up_and_read' + tag)
        fixed = [e.call(e.get_function('mulgrids.fix_blockname'), [k]) for k in names]
        e.prove(L.equals(e, key, fixed[0] if nk == 1 else tuple(fixed)) is True, 'post:row_key_is_the_printed_name' + tag)
        ok = len(res) == len(cols) and len(calls) == NF
        if ok:
            for i in range(NF):
                want = e.getslice(row2, FIELD0 + WIDTH * i, FIELD0 + WIDTH * (i + 1), None)
                got = calls[i]
                # the characters handed to fortran_float: the whole printed field, and blanks only from elsewhere
                ok = ok and _same_nonblank(e, got, want) and L.equals(e, res[i], z3.Real('ff%d' % i)) is True
        e.prove(ok, 'post:cell_is_read_from_exactly_its_printed_field' + tag)
    e.explore(prog, 'layout')


def _same_nonblank(e, got, want):
    """got (a slice of the data row on this path) without blanks is the printed field without blanks - decided as validity"""
    g, w = SymStr.of(got), SymStr.of(want)
    if not (g.fixed and w.fixed): return False
    # the printed fields have a blank at the sign column only: drop from got the leading / trailing characters that are
    # blank for every row of the path, then got must be the field, or the field without a sign column that is always blank
    gc = list(g.chars); wc = list(w.chars)
    def is_blank_valid(c):
        if isinstance(c, int): return c == 32 or 9 <= c <= 13          # the line end after the last field counts as blank
        return e.valid(c == 32, record=False)
    while gc and is_blank_valid(gc[0]): gc.pop(0)
    while gc and is_blank_valid(gc[-1]): gc.pop()
    while wc and is_blank_valid(wc[0]): wc.pop(0)
    while wc and is_blank_valid(wc[-1]): wc.pop()
    # want = sign + body; got must be body or sign + body
    if len(gc) == len(wc):
        return e.valid(z3.And(*[to_int(a) == to_int(b) for a, b in zip(gc, wc)]))
    if len(gc) == len(wc) - 1:
        return e.valid(z3.And(to_int(wc[0]) == 32, *[to_int(a) == to_int(b) for a, b in zip(gc, wc[1:])]))
    return False


def p_results_line(e, arg):
    """is_results_line (re.findall of '\\.[0-9]+'), the test skip_to_results_line uses to find the first row of a table: a
    row of the printed layout counts as a results line for the number of values table_expected_floats asks for, the header
    and units lines printed above it do not."""
    forms, table = arg
    T = TABLES[table]
    tag = '[%s table, row %s]' % (table, '/'.join(forms))
    def prog(e):
        m = e.load_module('t2listing')
        me = Obj(m.globals['t2listing'])
        G = lambda q: e.get_function('t2listing.t2listing.' + q)
        row, _s = build_row(e, 'row', forms, T)
        want = e.call(G('table_expected_floats'), [me, table, T['cols']])
        e.prove(want == NF, 'post:a_full_row_is_expected_to_hold_one_number_per_column' + tag)
        e.prove(e.call(G('is_results_line'), [me, row, want]) is True, 'post:a_printed_row_is_a_results_line' + tag)
        e.prove(e.call(G('is_results_line'), [me, row, NF + 1]) is False, 'post:a_row_does_not_count_for_more_numbers_than_it_prints' + tag)
        for line in T['above']:
            e.prove(e.call(G('is_results_line'), [me, line, want]) is False, 'post:header_and_units_lines_are_not_results_lines' + tag)
    e.explore(prog, 'results_line')


def p_table_whole(e, arg):
    """The real setup_table_TOUGH2 on the table of the first result set, then the real read_table_TOUGH2 on the table of a
    later result set, over a line tape (readline / tell / seek are positions in a list of lines): header, units line, blank,
    two rows, blank, separator.  The rows of both sets are symbolic in every digit and sign; names and row indices are the
    concrete structure.  Ensures: one row per printed row under the printed names, every cell read from its own printed field
    of the LATER set, the cursor left behind the table."""
    forms1, forms2, table = arg
    T = TABLES[table]
    tag = '[whole driver, %s table, first set %s, later set %s]' % (table, ' '.join('/'.join(f) for f in forms1), ' '.join('/'.join(f) for f in forms2))
    names = [[' AA 1', ' BA 1'], [('    1', '    2'), ('    2', '    3')]][table == 'connection']
    def prog(e):
        m = e.load_module('t2listing')
        calls = []
        def ff(eng, args, kwargs):
            calls.append(args[0])
            return z3.Real('ff%d' % (len(calls) - 1))
        e.opaque['fortran_float'] = ff
        e.find_branches = True
        def rows_of(setname, forms):
            out = []
            for k, f in enumerate(forms):
                r, s = build_row(e, '%s_row%d' % (setname, k + 1), f, T, index=k + 1, keys=[names[k]] if table == 'element' else list(names[k]))
                out.append((SymStr(list(r.chars) + [10]), s))
            return out
        set1, set2 = rows_of('first', forms1), rows_of('later', forms2)
        for rows in (set1,):          # the quantifier: a 3-digit exponent on a format-detection row is followed by a blank
            for (r, signs), f in zip(rows, forms1):
                for i, g in enumerate(f[:-1]):
                    if g != 'E2': e.assume(signs[i + 1] == 32)
        def table_lines(rows):
            return [T['above'][0] + '\n', T['above'][1] + '\n', '\n'] + [r for r, _s in rows] + ['\n', ' ' + '@' * 100 + '\n', '\n']
        lines = table_lines(set1) + table_lines(set2)
        st = {'pos': 0}
        def readline(eng):
            if st['pos'] >= len(lines): return ''
            st['pos'] += 1
            return lines[st['pos'] - 1]
        f = Obj(None)
        f.fields['readline'] = Builtin('file.readline', readline)
        f.fields['tell'] = Builtin('file.tell', lambda eng: st['pos'])
        f.fields['seek'] = Builtin('file.seek', lambda eng, p, *a: st.update(pos=p))
        me = Obj(m.globals['t2listing'])
        me.fields.update(_file=f, readline=Builtin('readline', readline), title='the title', _table={}, _tablenames=[], simulator='TOUGH2')
        G = lambda q: e.get_function('t2listing.t2listing.' + q)
        try:
            e.call(G('setup_table_TOUGH2'), [me, table])
            after_setup = st['pos']
            st['pos'] = len(table_lines(set1))          # skip_to_table leaves the cursor on the header line of the next set
            e.call(G('read_table_TOUGH2'), [me, table])
        except PyExc as ex:
            e.fail('post:table_is_set_up_and_read' + tag, 'raises %s: %s' % (ex.cls, ex.msg if isinstance(ex.msg, str) else '(message built from the row)')); return
        e.prove(True, 'post:table_is_set_up_and_read' + tag)
        tab = me.fields['_table'][table]
        fix = e.get_function('mulgrids.fix_blockname')
        want_names = [e.call(fix, [n]) if isinstance(n, str) else tuple(e.call(fix, [x]) for x in n) for n in names]
        e.prove(list(tab.fields['row_name']) == want_names and me.fields['_tablenames'] == [table], 'post:one_row_per_printed_row_under_the_printed_names' + tag)
        # frame: the table is consumed and the separator line that announces the next table is not; skipping the table
        # (what the reader does when asked to skip it) leaves the cursor exactly where reading it does
        n1 = len(table_lines(set1)); after_read = st['pos']
        st['pos'] = n1
        try:
            e.call(G('skip_table_TOUGH2'), [me, table])
            after_skip = st['pos']
        except PyExc as ex:
            after_skip = 'raises %s' % ex.cls
        e.prove(5 <= after_setup <= 6 and n1 + 5 <= after_read <= n1 + 6, 'post:cursor_is_left_behind_the_last_row_and_before_the_next_separator' + tag)
        e.prove(after_skip == after_read, 'post:skipping_the_table_leaves_the_cursor_where_reading_it_does' + tag)
        ok = len(calls) == 2 * NF
        gi = e.get_function('t2listing.listingtable.__getitem__')
        for k in range(2):
            if not ok: break
            row = e.call(gi, [tab, want_names[k]])
            for i in range(NF):
                field = e.getslice(set2[k][0], T['field0'] + T['width'] * i, T['field0'] + T['width'] * (i + 1), None)
                ok = ok and _same_nonblank(e, calls[k * NF + i], field) and L.equals(e, e.getitem(row, T['cols'][i]), z3.Real('ff%d' % (k * NF + i))) is True
        e.prove(ok, 'post:cell_is_read_from_exactly_its_printed_field' + tag)
    e.explore(prog, 'table_whole')


def p_table_whole_autough2(e, arg):
    """The real setup_table_AUTOUGH2 on the element table of the first result set and the real read_table_AUTOUGH2 /
    skip_table_AUTOUGH2 on a later set, over a line tape: three lines the set-up skips, header, blank, two rows, the EEEEE
    line, one more line.  Values are blank-separated and read by split(): every cell is the printed field of its column."""
    forms1, forms2 = arg
    table = 'element'
    T = TABLES['element AUTOUGH2']
    tag = '[whole driver, AUTOUGH2 element table, first set %s, later set %s]' % (' '.join('/'.join(f) for f in forms1), ' '.join('/'.join(f) for f in forms2))
    names = ['GS  1', 'AC 90']
    def prog(e):
        m = e.load_module('t2listing')
        calls = []
        def ff(eng, args, kwargs):
            calls.append(args[0])
            return z3.Real('ff%d' % (len(calls) - 1))
        e.opaque['fortran_float'] = ff
        e.find_branches = True
        def rows_of(setname, forms):
            # split() decides every sign column by a branch: the second row of each set has concrete signs (8 x 8 paths, not 512)
            return [SymStr(list(build_row(e, '%s_row%d' % (setname, k + 1), f, T, index=k + 1, keys=[names[k]], fixed_signs=None if k == 0 else {'first': ' - ', 'later': '- -'}[setname])[0].chars) + [10]) for k, f in enumerate(forms)]
        set1, set2 = rows_of('first', forms1), rows_of('later', forms2)
        head = ' ELEMEN INDEX   Pressure    Temperature Gas saturati\n'
        def table_lines(rows):
            return [' ' + 'E' * 100 + '\n', ' ' * 59 + 'ELEMENT TABLE\n', '\n', head, '\n'] + rows + [' ' + 'E' * 100 + '\n', ' the title\n']
        lines = table_lines(set1) + table_lines(set2)
        st = {'pos': 0}
        def readline(eng):
            if st['pos'] >= len(lines): return ''
            st['pos'] += 1
            return lines[st['pos'] - 1]
        f = Obj(None)
        f.fields['readline'] = Builtin('file.readline', readline)
        f.fields['tell'] = Builtin('file.tell', lambda eng: st['pos'])
        f.fields['seek'] = Builtin('file.seek', lambda eng, p, *a: st.update(pos=p))
        me = Obj(m.globals['t2listing'])
        me.fields.update(_file=f, readline=Builtin('readline', readline), title='the title', _table={}, _tablenames=[], simulator='AUTOUGH2')
        G = lambda q: e.get_function('t2listing.t2listing.' + q)
        n1 = len(table_lines(set1))
        try:
            e.call(G('setup_table_AUTOUGH2'), [me, table])
            after_setup = st['pos']
            st['pos'] = n1
            e.call(G('read_table_AUTOUGH2'), [me, table])
            after_read = st['pos']
            st['pos'] = n1
            e.call(G('skip_table_AUTOUGH2'), [me, table])
            after_skip = st['pos']
        except PyExc as ex:
            e.fail('post:table_is_set_up_and_read' + tag, 'raises %s: %s' % (ex.cls, ex.msg if isinstance(ex.msg, str) else '(message built from the row)')); return
        e.prove(True, 'post:table_is_set_up_and_read' + tag)
        tab = me.fields['_table'][table]
        fix = e.get_function('mulgrids.fix_blockname')
        want_names = [e.call(fix, [n]) for n in names]
        e.prove(list(tab.fields['row_name']) == want_names and list(tab.fields['column_name']) == T['cols'], 'post:one_row_per_printed_row_under_the_printed_names' + tag)
        e.prove(after_setup == n1 and after_read == 2 * n1, 'post:the_table_and_its_closing_lines_are_consumed' + tag)
        e.prove(after_skip == after_read, 'post:skipping_the_table_leaves_the_cursor_where_reading_it_does' + tag)
        ok = len(calls) == 2 * NF
        gi = e.get_function('t2listing.listingtable.__getitem__')
        for k in range(2):
            if not ok: break
            row = e.call(gi, [tab, want_names[k]])
            for i in range(NF):
                field = e.getslice(set2[k], T['field0'] + T['width'] * i, T['field0'] + T['width'] * (i + 1), None)
                ok = ok and _same_nonblank(e, calls[k * NF + i], field) and L.equals(e, e.getitem(row, T['cols'][i]), z3.Real('ff%d' % (k * NF + i))) is True
        e.prove(ok, 'post:cell_is_read_from_exactly_its_printed_field' + tag)
    e.explore(prog, 'table_whole_autough2')


TABLES['element']['above'] = [' ELEM.  INDEX     P           T          SG', '                 (PA)      (DEG-C)            (KG/M**3)', '']
TABLES['connection']['above'] = ['   ELEM1  ELEM2  INDEX    FLOH      FLOH/FLOF       FLOF', '                          (W)        (J/KG)        (KG/S)', '']
ALL_E2 = ('E2', 'E2', 'E2')
LAYOUTS = [(ALL_E2, ALL_E2, ''), (ALL_E2, ('N3', 'E3', 'N3'), ''), (('N3', 'E2', 'N3'), ALL_E2, ''), (('E3', 'E3', 'E2'), ('E2', 'N3', 'E3'), ''), (('E2', 'N3', 'E3'), ('E3', 'E2', 'N3'), ''),
           (('N3', 'E2', 'E2'), ALL_E2, 'noE abutting'), (('E3', 'E2', 'E2'), ALL_E2, 'E3 abutting')]
LAYOUTS += [(ALL_E2, ('E2', 'N3', 'E3'), '', 'connection'), (('N3', 'E3', 'E2'), ALL_E2, '', 'connection'), (('E3', 'N3', 'N3'), ('N3', 'E2', 'E3'), '', 'connection')]
WHOLE = [((ALL_E2, ('E2', 'N3', 'E2')), (('N3', 'E3', 'E2'), ALL_E2), 'element'), ((('E3', 'E2', 'E2'), ALL_E2), (ALL_E2, ('E2', 'N3', 'E3')), 'connection'),
         ((('N3', 'E2', 'N3'), ('E3', 'E3', 'E2')), (('E3', 'N3', 'N3'), ('N3', 'E2', 'E3')), 'element')]
WHOLE_AUTOUGH2 = [((ALL_E2, ('E2', 'N3', 'E2')), (('N3', 'E3', 'E2'), ALL_E2))]
PROGRAMS = [('p_layout', a) for a in LAYOUTS] + [('p_table_whole', a) for a in WHOLE] + [('p_table_whole_autough2', a) for a in WHOLE_AUTOUGH2] + [('p_results_line', (ALL_E2, 'element')), ('p_results_line', (('N3', 'E3', 'E2'), 'connection'))]


def programs(tier):
    """thorough: every combination of printed forms on the format-detection row, for both tables"""
    if tier != 'thorough':
        return PROGRAMS
    import itertools
    forms = ('E2', 'N3', 'E3')
    extra = []
    for k, lf in enumerate(itertools.product(forms, repeat=NF)):
        for table in ('element', 'connection'):
            a = (lf, tuple(forms[(k + j) % 3] for j in range(NF)), '') + (() if table == 'element' else (table,))
            if a not in LAYOUTS: extra.append(a)
    whole = [((('E2', 'E3', 'N3'), ('N3', 'N3', 'E2')), (('E3', 'E3', 'E3'), ('N3', 'N3', 'N3')), 'connection'), ((('E3', 'N3', 'E3'), ALL_E2), (('N3', 'E2', 'N3'), ('E3', 'E2', 'E3')), 'element'),
             ((ALL_E2, ALL_E2), (ALL_E2, ALL_E2), 'connection')]
    return PROGRAMS + [('p_layout', a) for a in extra] + [('p_table_whole', a) for a in whole] + [('p_table_whole_autough2', ((('E3', 'N3', 'E2'), ALL_E2), (('E2', 'E3', 'N3'), ('N3', 'E2', 'E3'))))]


def replay(obname, model, result):
    m = model or {}
    if result['program'] == 'p_results_line':
        return None if 'row' not in m else ("from t2listing import t2listing\nme = t2listing.__new__(t2listing)\nrow = %r\n"
                                            "ok = me.is_results_line(row, 3) and not me.is_results_line(row, 4)\ndetail = 'is_results_line(%%r, 3) = %%r' %% (row, me.is_results_line(row, 3))\n") % (m['row'],)
    if result['program'] == 'p_table_whole_autough2':
        keys = ['first_row1', 'first_row2', 'later_row1', 'later_row2']
        if not all(k in m for k in keys): return None
        return ("from contracts.c05_native import native_table_whole_autough2\nok, detail = native_table_whole_autough2(%r)\n") % ([m[k] for k in keys],)
    if result['program'] == 'p_table_whole':
        keys = ['first_row1', 'first_row2', 'later_row1', 'later_row2']
        if not all(k in m for k in keys): return None
        return ("from contracts.c05_native import native_table_whole\nok, detail = native_table_whole(%r, %r)\n") % ([m[k] for k in keys], result['arg'][2])
    if 'layout_row' not in m or 'data_row' not in m:
        return None
    table = result['arg'][3] if len(result['arg']) > 3 else 'element'
    return ("from contracts.c05_native import native_layout\nok, detail = native_layout(%r, %r, %r)\n") % (m['layout_row'], m['data_row'], table)
