"""C03 - MULgraph geometry file: the real section writers / readers of mulgrid over a record
tape (text layer: C02 on mulgrid_format_specification), name and flag lemmas, header binding."""
import ast
import os
import time
import z3
from pyvc.engine import Obj, NVec, Builtin
from pyvc import library as L
from pyvc.values import PyExc, SymStr, to_real
from contracts.c01 import Tape

FUNCS = ['mulgrids.mulgrid.write_nodes', 'mulgrids.mulgrid.read_nodes', 'mulgrids.mulgrid.write_columns', 'mulgrids.mulgrid.read_columns',
         'mulgrids.mulgrid.write_connections', 'mulgrids.mulgrid.read_connections', 'mulgrids.mulgrid.write_layers', 'mulgrids.mulgrid.read_layers',
         'mulgrids.mulgrid.write_surface', 'mulgrids.mulgrid.read_surface', 'mulgrids.mulgrid.write_wells', 'mulgrids.mulgrid.read_wells',
         'mulgrids.mulgrid.write_header', 'mulgrids.mulgrid.read_header', 'mulgrids.mulgrid.set_block_order_int']


def plain(f):
    f.plain = True
    return f


def new_geo(e, scale):
    m = e.load_module('mulgrids').globals
    g = Obj(m['mulgrid'])
    f = g.fields
    f.update(_convention=0, _atmosphere_type=0, _unit_type='' if scale == 1 else 'FEET ', unit_scale=scale,
             colname_length=3, layername_length=2, atmosphere_column_name='ATM', nodelist=[], node={}, columnlist=[], column={},
             connectionlist=[], connection={}, layerlist=[], layer={}, welllist=[], well={}, block_name_list=[], block_name_index={},
             block_connection_name_list=[], block_connection_name_index={}, _block_order=None, _block_order_int=None, default_surface=True)
    return g, m


def build(e, scale):
    """A 2-column (quad + triangle) geometry with symbolic coordinates, 2 layers, a surface, a well."""
    g, m = new_geo(e, scale)
    coords = {'  a': (0, 0), '  b': (10, 0), '  c': (10, 10), '  d': (0, 10), ' ee': (20, 5)}
    nodes = {}
    for k, (nm, (x, y)) in enumerate(coords.items()):
        # symbolic perturbation of a convex layout keeps orientation branches few
        px, py = e.sym_real('nx%d' % k, x - 1, x + 1), e.sym_real('ny%d' % k, y - 1, y + 1)
        nd = e.call(m['node'], [nm, NVec([px, py])])
        e.call(e.get_function('mulgrids.mulgrid.add_node'), [g, nd])
        nodes[nm] = nd
    c1 = e.call(m['column'], ['  a', [nodes[n] for n in ('  a', '  b', '  c', '  d')]])
    cen = NVec([e.sym_real('ccx'), e.sym_real('ccy')])
    c2 = e.call(m['column'], [' bb', [nodes[n] for n in ('  b', ' ee', '  c')], cen])
    for c in (c1, c2):
        e.call(e.get_function('mulgrids.mulgrid.add_column'), [g, c])
    e.call(e.get_function('mulgrids.mulgrid.add_connection'), [g, e.call(m['connection'], [[c1, c2]])])
    z0 = e.sym_real('z0')
    b1 = e.sym_real('b1'); b2 = e.sym_real('b2')
    e.assume(z3.And(b1 < z0, b2 < b1))
    ce1, ce2 = e.sym_real('ce1'), e.sym_real('ce2')
    e.assume(z3.And(ce1 != 0, ce2 != 0, z0 != 0))     # a centre of exactly 0 is read as "absent" (format limitation)
    lays = [e.call(m['layer'], [' 0', z0, z0, z0]), e.call(m['layer'], [' 1', b1, ce1, z0]), e.call(m['layer'], [' 2', b2, ce2, b1])]
    for l in lays:
        e.call(e.get_function('mulgrids.mulgrid.add_layer'), [g, l])
    s = e.sym_real('surf')
    e.assume(z3.And(s > b1, s < z0))
    e.setattr(c2, 'surface', s)
    w = e.call(m['well'], ['w   1', [NVec([e.sym_real('wx%d' % k), e.sym_real('wy%d' % k), e.sym_real('wz%d' % k)]) for k in range(3)]])
    e.call(e.get_function('mulgrids.mulgrid.add_well'), [g, w])
    return g, m


def veq(e, a, b):
    return all(L.equals(e, x, y) is True or _valid(e, L.equals(e, x, y)) for x, y in zip(a.items, b.items)) and len(a.items) == len(b.items)


def _valid(e, cond):
    return e.valid(cond, 10000)


def compare_sections(e, g, h, tag):
    gf, hf = g.fields, h.fields
    e.prove([n.fields['name'] for n in hf['nodelist']] == [n.fields['name'] for n in gf['nodelist']] and
            all(veq(e, a.fields['pos'], b.fields['pos']) for a, b in zip(gf['nodelist'], hf['nodelist'])), 'post:nodes_preserved_in_order' + tag)
    okc = [c.fields['name'] for c in hf['columnlist']] == [c.fields['name'] for c in gf['columnlist']]
    for a, b in zip(gf['columnlist'], hf['columnlist']):
        okc = okc and [n.fields['name'] for n in a.fields['node']] == [n.fields['name'] for n in b.fields['node']] and \
            a.fields['centre_specified'] == b.fields['centre_specified'] and veq(e, a.fields['centre'], b.fields['centre'])
    e.prove(okc, 'post:columns_node_order_and_specified_centre_preserved' + tag)
    e.prove([tuple(c.fields['name'] for c in k.fields['column']) for k in hf['connectionlist']] ==
            [tuple(c.fields['name'] for c in k.fields['column']) for k in gf['connectionlist']], 'post:connections_preserved_in_order' + tag)
    okl = [l.fields['name'] for l in hf['layerlist']] == [l.fields['name'] for l in gf['layerlist']]
    for a, b in zip(gf['layerlist'], hf['layerlist']):
        okl = okl and all(_valid(e, L.equals(e, a.fields[k], b.fields[k])) for k in ('bottom', 'centre', 'top'))
    e.prove(okl, 'post:layers_preserved' + tag)
    oks = all(a.fields['default_surface'] == b.fields['default_surface'] and
              (a.fields['default_surface'] or _valid(e, L.equals(e, a.fields['_surface'], b.fields['_surface'])))
              for a, b in zip(gf['columnlist'], hf['columnlist']))
    e.prove(oks, 'post:non_default_surface_elevations_preserved' + tag)
    okw = [w.fields['name'] for w in hf['welllist']] == [w.fields['name'] for w in gf['welllist']] and \
        all(len(a.fields['pos']) == len(b.fields['pos']) and all(veq(e, p, q) for p, q in zip(a.fields['pos'], b.fields['pos'])) for a, b in zip(gf['welllist'], hf['welllist']))
    e.prove(okw, 'post:well_tracks_preserved' + tag)


def p_sections(e, feet):
    tag = '[feet]' if feet else '[metres]'
    from fractions import Fraction
    scale = Fraction('0.3048') if feet else 1
    def prog(e):
        g, m = build(e, scale)
        spec = m['mulgrid_format_specification']
        e.prove(g.fields['columnlist'][1].fields['default_surface'] is False and g.fields['columnlist'][0].fields['default_surface'] is True,
                'post:a_column_given_a_surface_elevation_is_not_default' + tag)
        tape = Tape(e, spec)
        for w in ('nodes', 'columns', 'connections', 'layers', 'surface', 'wells'):
            e.call(e.get_function('mulgrids.mulgrid.write_' + w), [g, tape.obj])
        # the file holds the coordinates divided by the unit scale
        noderecs = [r for r in tape.recs if r[0] == 'rec' and r[1] == 'node']
        e.prove(len(noderecs) == 5 and all(_valid(e, to_real(r[2][1]) * to_real(scale) == to_real(nd.fields['pos'].items[0])) for r, nd in zip(noderecs, g.fields['nodelist'])),
                'post:file_holds_coordinates_in_file_units' + tag)
        colrecs = [r for r in tape.recs if r[0] == 'rec' and r[1] == 'column']
        e.prove(len(colrecs) == 2 and colrecs[0][2][3] is None and colrecs[1][2][3] is not None and
                _valid(e, to_real(colrecs[1][2][3]) * to_real(scale) == to_real(g.fields['columnlist'][1].fields['centre'].items[0])),
                'post:specified_column_centre_written_in_file_units' + tag)
        h, _ = new_geo(e, scale)
        tape.rewind()
        try:
            for w in ('nodes', 'columns', 'connections', 'layers', 'surface', 'wells'):
                kw = tape._readline(e)            # the section keyword line
                e.call(e.get_function('mulgrids.mulgrid.read_' + w), [h, tape.obj])
        except PyExc as ex:
            e.fail('post:read_accepts_what_write_produced' + tag, 'raises %s: %s' % (ex.cls, ex.msg))
            return
        e.prove(not tape.errors, 'post:read_accepts_what_write_produced' + tag)
        compare_sections(e, g, h, tag)
    e.explore(prog, 'sections')


def p_whole_file(e, arg):
    """The real mulgrid.write() and mulgrid.read() drivers over the record tape: header options,
    every section, and the derived block and connection name lists survive, and writing the re-read
    geometry produces the same records."""
    feet, atm, order = arg
    tag = '[%s,atm%d,order=%s]' % ('feet' if feet else 'metres', atm, order)
    from fractions import Fraction
    scale = Fraction('0.3048') if feet else 1
    def prog(e):
        g, m = build(e, scale)
        f = g.fields
        f.update(type='GENER', _atmosphere_type=atm, atmosphere_volume=e.sym_real('atmvol', 0), atmosphere_connection=e.sym_real('atmcon', 0),
                 gdcx=None, gdcy=None, cntype=None, permeability_angle=e.sym_real('angle'), filename='', read_function=None)
        f['_block_order'] = order
        e.call(e.get_function('mulgrids.mulgrid.set_block_order_int'), [g])
        e.call(e.get_function('mulgrids.mulgrid.set_secondary_variables'), [g])
        surf = e.sym_real('surf2')
        e.assume(z3.And(surf > f['layerlist'][2].fields['bottom'], surf < f['layerlist'][0].fields['bottom']))   # one or two layers below it
        e.call(e.get_function('mulgrids.mulgrid.set_default_surface'), [g])
        e.setattr(f['columnlist'][1], 'surface', surf)
        e.call(e.get_function('mulgrids.mulgrid.set_column_num_layers'), [g, f['columnlist'][1]])
        e.call(e.get_function('mulgrids.mulgrid.setup_block_name_index'), [g])
        e.call(e.get_function('mulgrids.mulgrid.setup_block_connection_name_index'), [g])
        spec = m['mulgrid_format_specification']
        tape = Tape(e, spec)
        e.opaque['fixed_format_file'] = lambda eng, args, kwargs: tape.obj
        e.call(e.get_function('mulgrids.mulgrid.write'), [g, 'g.dat'])
        first = list(tape.recs)
        h, _ = new_geo(e, 1)
        h.fields.update(read_function=None, filename='', gdcx=None, gdcy=None, cntype=None, type=None, permeability_angle=0, atmosphere_volume=None, atmosphere_connection=None)
        tape.rewind()
        try:
            e.call(e.get_function('mulgrids.mulgrid.read'), [h, 'g.dat'])
        except PyExc as ex:
            e.fail('post:read_accepts_what_write_produced' + tag, 'raises %s: %s' % (ex.cls, ex.msg))
            return
        e.prove(not tape.errors, 'post:read_accepts_what_write_produced' + tag)
        hf = h.fields
        hdr = all(_valid(e, L.equals(e, hf[k], f[k])) for k in ('_convention', '_atmosphere_type', 'atmosphere_volume', 'atmosphere_connection', 'permeability_angle', '_block_order_int'))
        e.prove(hdr and hf['_unit_type'] == f['_unit_type'] and _valid(e, L.equals(e, hf['unit_scale'], scale)) and hf['_block_order'] == (order if order else hf['_block_order']),
                'post:header_options_preserved' + tag)
        e.prove(hf['block_name_list'] == f['block_name_list'] and hf['block_connection_name_list'] == f['block_connection_name_list'],
                'post:derived_block_and_connection_name_lists_identical' + tag)
        e.prove([c.fields['num_layers'] for c in hf['columnlist']] == [c.fields['num_layers'] for c in f['columnlist']], 'post:column_layer_counts_preserved' + tag)
        e.prove(len(f['block_name_list']) >= 3 + (1 if atm == 0 else (2 if atm == 1 else 0)) and len(f['block_connection_name_list']) >= 2, 'cover:name_lists_are_not_empty' + tag)
        compare_sections(e, g, h, tag)
        tape2 = Tape(e, spec)
        e.opaque['fixed_format_file'] = lambda eng, args, kwargs: tape2.obj
        e.call(e.get_function('mulgrids.mulgrid.write'), [h, 'g2.dat'])
        same = len(first) == len(tape2.recs)
        if same:
            for a, b in zip(first, tape2.recs):
                same = same and a[0] == b[0] and a[1] == b[1] and (a[0] == 'raw' or (len(a[2]) == len(b[2]) and all(_valid(e, L.equals(e, x, y)) for x, y in zip(a[2], b[2]))))
        e.prove(same, 'post:second_write_reproduces_the_first_record_for_record' + tag)
    e.explore(prog, 'whole_file')


def p_name_trip(e, length):
    """name.ljust(3)[0:3].strip().rjust(L) == name for every right-justified name of length L."""
    def prog(e):
        name = e.sym_str('name', length=length)
        ns = SymStr.of(name)
        e.assume(ns.chars[-1] != 32)                      # right-justified: no trailing blank
        written = L._ljust(e, name, 3)
        back = L._rjust(e, L._strip(e, e.getslice(written, 0, 3, None)), length)
        e.prove(L.equals(e, back, name), 'lemma:right_justified_name_survives_the_file[len=%d]' % length)
    e.explore(prog, 'name_trip')


@plain
def o_tables(repo, arg, timeout_ms):
    """block-order flag tables are mutually inverse; the header record names instance storage."""
    t0 = time.time()
    src = open(os.path.join(repo, 'mulgrids.py')).read()
    tree = ast.parse(src)
    out = []
    cls = [n for n in tree.body if isinstance(n, ast.ClassDef) and n.name == 'mulgrid'][0]
    meth = dict((n.name, n) for n in cls.body if isinstance(n, ast.FunctionDef))
    def dict_literals(fn):
        return [ast.literal_eval(n) for n in ast.walk(fn) if isinstance(n, ast.Dict)]
    try:
        w = [d for d in dict_literals(meth['set_block_order_int']) if d][0]
        r = [d for d in dict_literals(meth['read_header']) if d][0]
        ok = dict((v, k) for k, v in w.items()) == r and set(w) == {'layer_column', 'dmplex'}
        out.append({'name': 'table:block_order_flags_mutually_inverse', 'status': 'discharged' if ok else 'failed', 'detail': '%r / %r' % (w, r),
                    'seconds': time.time() - t0, 'backend': 'ast-table', 'model': None if ok else {'tables': [w, r]}})
    except Exception as ex:
        out.append({'name': 'table:block_order_flags_mutually_inverse', 'status': 'undecided', 'detail': repr(ex), 'seconds': 0, 'backend': 'ast-table'})
    # header names
    spec = None
    for n in tree.body:
        if isinstance(n, ast.Assign) and getattr(n.targets[0], 'id', None) == 'mulgrid_format_specification':
            for k, v in zip(n.value.keys, n.value.values):
                if ast.literal_eval(k) == 'header':
                    spec = ast.literal_eval(v.elts[0])
    props = {}
    for n in cls.body:
        if isinstance(n, ast.Assign) and isinstance(n.value, ast.Call) and getattr(n.value.func, 'id', None) == 'property':
            props[n.targets[0].id] = [getattr(a, 'id', None) for a in n.value.args]
    bad = []
    for name in spec or []:
        if name in props:
            bad.append('%s is a property of the class, not an entry of the instance dictionary the header is written from' % name)
        if name.startswith('_') and name[1:] in props:
            getter = meth.get(props[name[1:]][0])
            rets = [n for n in ast.walk(getter) if isinstance(n, ast.Return)] if getter else []
            if not any(isinstance(r.value, ast.Attribute) and r.value.attr == name for r in rets):
                bad.append('property %s does not read %s' % (name[1:], name))
    ok = spec is not None and not bad
    out.append({'name': 'table:header_record_names_instance_storage', 'status': 'discharged' if ok else 'failed', 'detail': '; '.join(bad) or repr(spec),
                'seconds': time.time() - t0, 'backend': 'ast-table', 'model': None if ok else {'names': bad}})
    # the header options the property lists are all in the record
    need = {'_convention', '_atmosphere_type', 'atmosphere_volume', 'atmosphere_connection', '_unit_type', 'permeability_angle', '_block_order_int'}
    ok2 = spec is not None and need <= set(spec)
    out.append({'name': 'table:header_record_carries_every_header_option', 'status': 'discharged' if ok2 else 'failed', 'detail': repr(sorted(need - set(spec or []))),
                'seconds': 0, 'backend': 'ast-table', 'model': None if ok2 else {'missing': sorted(need - set(spec or []))}})
    return out


PROGRAMS = [('p_whole_file', (False, 0, None)), ('p_whole_file', (True, 1, 'dmplex')), ('p_whole_file', (False, 2, 'layer_column')), ('p_sections', False), ('p_sections', True), ('p_name_trip', 2), ('p_name_trip', 3), ('o_tables', None)]


def replay(obname, model, result):
    if result['program'] in ('p_sections', 'p_whole_file'):
        m = model or {}
        def fl(k, d):
            v = m.get(k)
            if isinstance(v, dict):
                return float(int(v['num'])) / float(int(v['den']))
            return float(v) if v is not None else d
        whole = result['program'] == 'p_whole_file'
        z0, b1, b2, sf = fl('z0', 100.), fl('b1', 95.), fl('b2', 88.), fl('surf2' if whole else 'surf', 98.5)
        if not (b2 < b1 < z0 and (b2 if whole else b1) < sf < z0):
            z0, b1, b2, sf = 100., 95., 88., (93. if whole else 98.5)
        atm, order = (result['arg'][1], result['arg'][2]) if whole else (0, None)
        return ("import os, tempfile, shutil\nimport numpy as np\nfrom mulgrids import *\n"
                "feet = %r\n"
                "feet = feet[0] if isinstance(feet, tuple) else feet\n"
                "geo = mulgrid().rectangular([10., 20.], [15.], [" + repr(z0 - b1) + ", " + repr(b1 - b2) + "], origin=[3., 4., " + repr(z0) + "], atmos_type=" + repr(atm) + ", block_order=" + repr(order) + ")\n"
                "geo.columnlist[1].centre = np.array([22., 9.5]); geo.columnlist[1].centre_specified = 1\n"
                "geo.columnlist[1].surface = " + repr(sf) + "; geo.set_column_num_layers(geo.columnlist[1]); geo.setup_block_name_index(); geo.setup_block_connection_name_index()\n"
                "geo.add_well(well('w   1', [np.array([5., 5., 100.]), np.array([6., 6., 90.])]))\n"
                "if feet: geo.unit_type = 'FEET '\n"
                "tmp = tempfile.mkdtemp(dir='/var/tmp'); f = os.path.join(tmp, 'g.dat')\n"
                "try:\n"
                "    geo.write(f); h = mulgrid(f); h.write(f + '2')\n"
                "    tol = 0.005 * (0.3048 if feet else 1.) + 1e-9\n"
                "    ok = h.unit_type == geo.unit_type and (geo.block_order is None or h.block_order == geo.block_order) and h.atmosphere_type == geo.atmosphere_type and h.convention == geo.convention and [n.name for n in h.nodelist] == [n.name for n in geo.nodelist] and all(np.allclose(a.pos, b.pos, atol=tol) for a, b in zip(geo.nodelist, h.nodelist))\n"
                "    ok = ok and all(a.centre_specified == b.centre_specified and np.allclose(a.centre, b.centre, atol=tol) and [n.name for n in a.node] == [n.name for n in b.node] for a, b in zip(geo.columnlist, h.columnlist))\n"
                "    ok = ok and all(abs(a.surface - b.surface) <= tol for a, b in zip(geo.columnlist, h.columnlist)) and all(abs(a.bottom - b.bottom) <= tol and abs(a.centre - b.centre) <= tol for a, b in zip(geo.layerlist, h.layerlist))\n"
                "    ok = ok and h.block_name_list == geo.block_name_list and h.block_connection_name_list == geo.block_connection_name_list and open(f).read() == open(f + '2').read()\n"
                "    detail = 'file: %%s' %% open(f).read()[:400]\n"
                "except Exception as ex:\n"
                "    ok, detail = False, '%%s: %%s' %% (type(ex).__name__, ex)\n"
                "finally: shutil.rmtree(tmp)\n") % (result['arg'],)
    m = model or {}
    if result['program'] == 'p_name_trip' and 'name' in m:
        return ("name = %r\nback = name.ljust(3)[0:3].strip().rjust(len(name))\nok = back == name\ndetail = '%%r -> %%r' %% (name, back)\n") % (m['name'],)
    if result['program'] == 'o_tables':
        return ("import os, tempfile, shutil\nfrom mulgrids import *\n"
                "tmp = tempfile.mkdtemp(dir='/var/tmp'); f = os.path.join(tmp, 'g.dat')\n"
                "ok, detail = True, ''\n"
                "try:\n"
                "    for conv in range(4):\n"
                "        for atm in range(3):\n"
                "            for unit in ('', 'FEET '):\n"
                "                for order in (None, 'layer_column', 'dmplex'):\n"
                "                    g = mulgrid().rectangular([10., 20.], [15.], [5., 7.], convention=conv, atmos_type=atm, block_order=order)\n"
                "                    g.unit_type = unit; g.permeability_angle = 12.5; g.atmosphere_volume = 2.e22; g.atmosphere_connection = 2.e-5\n"
                "                    g.write(f); h = mulgrid(f)\n"
                "                    got = (h.convention, h.atmosphere_type, h.unit_type, h.block_order, h.permeability_angle, h.atmosphere_volume, h.atmosphere_connection)\n"
                "                    want = (conv, atm, unit, order, 12.5, 2.e22, 2.e-5)\n"
                "                    if got != want and not (order is None and got[3] in (None, 'layer_column') and got[:3] + got[4:] == want[:3] + want[4:]): ok, detail = False, 'header options written %%r read %%r' %% (want, got)\n"
                "except Exception as ex:\n"
                "    ok, detail = False, '%%s: %%s' %% (type(ex).__name__, ex)\n"
                "finally: shutil.rmtree(tmp)\n")
    return None
