"""Native replay of the C05 layout obligations: the two rows of the solver's counterexample through the real functions."""


def native_layout(layout_row, data_row, table='element'):
    from t2listing import t2listing, listingtable
    from mulgrids import fix_blockname
    cols, keys, f0, w = {'element': (['P', 'T', 'SG'], [1], 12, 12), 'connection': (['FLOH', 'FLOH/FLOF', 'FLOF'], [3, 10], 21, 13)}[table]
    nk = len(keys)
    printed_key = lambda row: fix_blockname(row[keys[0]: keys[0] + 5]) if nk == 1 else tuple(fix_blockname(row[k: k + 5]) for k in keys)
    me = t2listing.__new__(t2listing)
    try:
        start = me.start_of_values(layout_row, cols)
        keypos = me.key_positions(layout_row[:start], nk)
        if not keypos: return False, 'key_positions finds no key in %r' % layout_row[:start]
        numpos = me.parse_table_line(layout_row, start, cols)
        fmt = {'key': keypos, 'index': keypos[-1] + 5, 'values': numpos}
        tab = listingtable(cols, [printed_key(layout_row)], row_format=fmt, num_keys=nk)
        key = tab.key_from_line(data_row)
        cells = me.read_table_line_TOUGH2(data_row, len(cols), fmt)
    except Exception as ex:
        return False, 'layout row %r: raises %s: %s' % (layout_row, type(ex).__name__, ex)
    # the obligation quantifies over every data row of the printed layout: the solver's data row first, then rows of the same
    # printed form with other digits and signs (a misplaced column boundary shows in the numbers only for some digits)
    def variants(row):
        for (r,) in _row_variants([row], f0, w): yield r
    for row in variants(data_row):
        bad = []
        key = tab.key_from_line(row)
        cells = me.read_table_line_TOUGH2(row, len(cols), fmt)
        if key != printed_key(row): bad.append('key %r, printed %r' % (key, printed_key(row)))
        for i in range(3):
            f = row[f0 + w * i: f0 + w * (i + 1)]
            # the printed number, independently: sign, mantissa digits, exponent
            body = f[1:].replace('E', '')
            k = max(body.rfind('+'), body.rfind('-'))
            want = float(('-' if f[0] == '-' else '') + body[:k] + 'e' + body[k:])
            if not (cells[i] == want): bad.append('column %s: printed %r read as %r' % (cols[i], f, cells[i]))
        if bad:
            return False, 'layout row %r, data row %r (column positions %r): ' % (layout_row, row, numpos) + '; '.join(bad)
    return True, 'cells are the printed numbers (column positions %r)' % (numpos,)


HEAD = {'element': [' ELEM.  INDEX     P           T          SG', '                 (PA)      (DEG-C)            (KG/M**3)', ''],
        'connection': ['   ELEM1  ELEM2  INDEX    FLOH      FLOH/FLOF       FLOF', '                          (W)        (J/KG)        (KG/S)', '']}


def _printed(f):
    body = f[1:].replace('E', '')
    k = max(body.rfind('+'), body.rfind('-'))
    return float(('-' if f[0] == '-' else '') + body[:k] + 'e' + body[k:])


def native_table_whole(rows, table='element'):
    """the real setup_table_TOUGH2 on the first two rows and read_table_TOUGH2 on the later two, over a real (in-memory) file"""
    import io
    from t2listing import t2listing
    from mulgrids import fix_blockname
    cols, keys, f0, w = {'element': (['P', 'T', 'SG'], [1], 12, 12), 'connection': (['FLOH', 'FLOH/FLOF', 'FLOF'], [3, 10], 21, 13)}[table]
    def table_lines(rs): return HEAD[table] + list(rs) + ['', ' ' + '@' * 100, '']
    def variants(pair): return _row_variants(pair, f0, w)
    for later in variants(rows[2:]):
        first = table_lines(rows[:2])
        text = '\n'.join(first + table_lines(later)) + '\n'
        me = t2listing.__new__(t2listing)
        me._file = io.BytesIO(text.encode()); me.encoding = 'utf-8'; me.title = 'the title'; me._table = {}; me._tablenames = []; me.simulator = 'TOUGH2'
        try:
            me.setup_table_TOUGH2(table)
            me._file.seek(len(('\n'.join(first) + '\n').encode()))
            me.read_table_TOUGH2(table)
        except Exception as ex:
            return False, 'first set %r: raises %s: %s' % (rows[:2], type(ex).__name__, ex)
        tab = me._table[table]
        bad = []
        after_read = me._file.tell()
        me._file.seek(len(('\n'.join(first) + '\n').encode()))
        me.skip_table_TOUGH2(table)
        lo, hi = [len(('\n'.join(first + table_lines(later)[:k]) + '\n').encode()) for k in (-3, -2)]
        if not lo <= after_read <= hi: bad.append('cursor left at byte %d, the table ends at %d and the next separator at %d' % (after_read, lo, hi))
        if me._file.tell() != after_read: bad.append('skipping the table leaves the cursor at byte %d, reading it at %d' % (me._file.tell(), after_read))
        names = [fix_blockname(r[keys[0]: keys[0] + 5]) if len(keys) == 1 else tuple(fix_blockname(r[k: k + 5]) for k in keys) for r in later]
        if list(tab.row_name) != names: bad.append('row names %r, printed %r' % (list(tab.row_name), names))
        else:
            for r, nm in zip(later, names):
                for i, c in enumerate(cols):
                    f = r[f0 + w * i: f0 + w * (i + 1)]
                    if not (tab[nm][c] == _printed(f)): bad.append('row %r column %s: printed %r read as %r' % (nm, c, f, tab[nm][c]))
        if bad:
            return False, 'first set %r, later set %r (row format %r): ' % (rows[:2], later, tab.row_format) + '; '.join(bad[:3])
    return True, 'cells are the printed numbers (row format %r)' % (tab.row_format,)


def _row_variants(pair, f0, w, sign_col=0):
    """the solver's rows, then rows of the same printed form with other digits (signs kept, then set): a misplaced boundary or a
    lost sign shows in the numbers only for some digits (the solver's default digits are all 0)"""
    yield list(pair)
    for digits, sign in (('7391', None), ('7391', '-'), ('1', ' '), ('9', '-'), ('2468', ' ')):
        outs = []
        for row in pair:
            out, k = list(row), 0
            for j in range(f0, len(row)):
                if (j - f0) % w == sign_col:
                    if sign is not None: out[j] = sign
                elif row[j].isdigit() and row[j - 1] != ' ' and not (row[j] == '0' and row[j + 1: j + 2] == '.'):
                    out[j] = digits[k % len(digits)]; k += 1
            outs.append(''.join(out))
        yield outs


def native_table_whole_autough2(rows):
    for later in _row_variants(rows[2:], 13, 13, sign_col=1):
        ok, detail = _native_table_whole_autough2(list(rows[:2]) + later)
        if not ok: return ok, detail
    return ok, detail


def _native_table_whole_autough2(rows):
    """the real setup_table_AUTOUGH2 on the first two rows, read_table_AUTOUGH2 / skip_table_AUTOUGH2 on the later two"""
    import io
    from t2listing import t2listing
    from mulgrids import fix_blockname
    cols, f0, w = ['Pressure', 'Temperature', 'Gas saturati'], 13, 13
    def table_lines(rs):
        return [' ' + 'E' * 100, ' ' * 59 + 'ELEMENT TABLE', '', ' ELEMEN INDEX   Pressure    Temperature Gas saturati', ''] + list(rs) + [' ' + 'E' * 100, ' the title']
    first = '\n'.join(table_lines(rows[:2])) + '\n'
    text = first + '\n'.join(table_lines(rows[2:])) + '\n'
    me = t2listing.__new__(t2listing)
    me._file = io.BytesIO(text.encode()); me.encoding = 'utf-8'; me.title = 'the title'; me._table = {}; me._tablenames = []; me.simulator = 'AUTOUGH2'
    try:
        me.setup_table_AUTOUGH2('element')
        after_setup = me._file.tell()
        me._file.seek(len(first.encode())); me.read_table_AUTOUGH2('element'); after_read = me._file.tell()
        me._file.seek(len(first.encode())); me.skip_table_AUTOUGH2('element'); after_skip = me._file.tell()
    except Exception as ex:
        return False, 'rows %r: raises %s: %s' % (rows, type(ex).__name__, ex)
    tab = me._table['element']
    bad = []
    if after_setup != len(first.encode()) or after_read != len(text.encode()): bad.append('cursor after set-up %d (table ends at %d), after reading %d (%d)' % (after_setup, len(first.encode()), after_read, len(text.encode())))
    if after_skip != after_read: bad.append('skipping the table leaves the cursor at byte %d, reading it at %d' % (after_skip, after_read))
    names = [fix_blockname(r[2:7]) for r in rows[2:]]
    if list(tab.row_name) != names or list(tab.column_name) != cols: bad.append('rows %r columns %r, printed %r %r' % (list(tab.row_name), list(tab.column_name), names, cols))
    else:
        for r, nm in zip(rows[2:], names):
            for i, c in enumerate(cols):
                f = r[f0 + w * i: f0 + w * (i + 1)].strip()
                f = f if f[0] == '-' else ' ' + f
                if not (tab[nm][c] == _printed(f)): bad.append('row %r column %s: printed %r read as %r' % (nm, c, f, tab[nm][c]))
    return (not bad), '; '.join(bad[:3]) or 'cells are the printed numbers'
