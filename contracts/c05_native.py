"""Native replay of the C05 layout obligations: the two rows of the solver's counterexample through the real functions."""


def native_layout(layout_row, data_row, table='element'):
    from t2listing import t2listing, listingtable
    from mulgrids import fix_blockname
    cols, keys, f0, w = {'element': (['P', 'T', 'SG'], [1], 12, 12), 'connection': (['FLOH', 'FLOH/FLOF', 'FLOF'], [3, 10], 21, 13)}[table]
    nk = len(keys)
    printed_key = lambda row: fix_blockname(row[keys[0]: keys[0] + 5]) if nk == 1 else tuple(fix_blockname(row[k: k + 5]) for k in keys)
    me = t2listing.__new__(t2listing)
    try:
        start = me.start_of_values(layout_row, cols)
        keypos = me.key_positions(layout_row[:start], nk)
        if not keypos: return False, 'key_positions finds no key in %r' % layout_row[:start]
        numpos = me.parse_table_line(layout_row, start, cols)
        fmt = {'key': keypos, 'index': keypos[-1] + 5, 'values': numpos}
        tab = listingtable(cols, [printed_key(layout_row)], row_format=fmt, num_keys=nk)
        key = tab.key_from_line(data_row)
        cells = me.read_table_line_TOUGH2(data_row, len(cols), fmt)
    except Exception as ex:
        return False, 'layout row %r: raises %s: %s' % (layout_row, type(ex).__name__, ex)
    # the obligation quantifies over every data row of the printed layout: the solver's data row first, then rows of the same
    # printed form with other digits and signs (a misplaced column boundary shows in the numbers only for some digits)
    def variants(row):
        yield row
        for digits, sign in (('7391', '-'), ('1', ' '), ('9', '-'), ('2468', ' ')):
            out, k = list(row), 0
            for j in range(f0, len(row)):
                if (j - f0) % w == 0: out[j] = sign
                elif row[j].isdigit() and row[j - 1] != ' ' and not (row[j] == '0' and row[j + 1: j + 2] == '.'):
                    out[j] = digits[k % len(digits)]; k += 1
            yield ''.join(out)
    for row in variants(data_row):
        bad = []
        key = tab.key_from_line(row)
        cells = me.read_table_line_TOUGH2(row, len(cols), fmt)
        if key != printed_key(row): bad.append('key %r, printed %r' % (key, printed_key(row)))
        for i in range(3):
            f = row[f0 + w * i: f0 + w * (i + 1)]
            # the printed number, independently: sign, mantissa digits, exponent
            body = f[1:].replace('E', '')
            k = max(body.rfind('+'), body.rfind('-'))
            want = float(('-' if f[0] == '-' else '') + body[:k] + 'e' + body[k:])
            if not (cells[i] == want): bad.append('column %s: printed %r read as %r' % (cols[i], f, cells[i]))
        if bad:
            return False, 'layout row %r, data row %r (column positions %r): ' % (layout_row, row, numpos) + '; '.join(bad)
    return True, 'cells are the printed numbers (column positions %r)' % (numpos,)
