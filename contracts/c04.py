"""C04 - contracts on the real geometry -> grid functions (mulgrids.py, t2grids.py, geometry.py),
over real arithmetic (A1) with record models of layer / column / connection objects."""
import z3
from pyvc.engine import Obj, NVec
from pyvc import library as L
from pyvc.values import PyExc, to_real, to_int, z_and, z_or, z_not

FUNCS = ['t2grids.t2grid.fromgeo', 't2grids.t2grid.add_blocks', 't2grids.t2grid.add_atmosphereblocks', 't2grids.t2grid.add_underground_blocks', 't2grids.t2grid.add_connections',
         'mulgrids.mulgrid.rectangular', 'mulgrids.mulgrid.add_layers', 'mulgrids.mulgrid.setup_block_name_index', 'mulgrids.mulgrid.setup_block_connection_name_index',
         'mulgrids.mulgrid.set_column_num_layers', 'mulgrids.column.__init__', 'mulgrids.mulgrid.block_surface', 'mulgrids.mulgrid.block_volume', 'mulgrids.mulgrid.block_centre',
         'mulgrids.mulgrid.connection_params', 'mulgrids.mulgrid.get_tilt_vector', 'geometry.line_projection',
         'geometry.polygon_area', 't2grids.t2grid.add_vertical_layer_connections',
         't2grids.t2grid.add_horizontal_layer_connections', 't2grids.t2grid.add_connection']

NL = 3    # underground layers in the record model


def make_geo(e, atm_type=0, convention=0):
    """A geometry record with an atmosphere layer and NL underground layers whose
    elevations are symbolic and well formed (requires-clause of every contract here:
    top of each layer == bottom of the one above, bottom < centre < top)."""
    m = e.load_module('mulgrids')
    geo = Obj(m.globals['mulgrid'])
    f = geo.fields
    f['_convention'] = convention
    f['_atmosphere_type'] = atm_type
    e.call(e.get_function('mulgrids.mulgrid.set_secondary_variables'), [geo])
    f['atmosphere_volume'] = e.sym_real('atmvol', 0)
    f['atmosphere_connection'] = e.sym_real('atmcon', 0)
    f['gdcx'] = None
    f['gdcy'] = None
    f['permeability_angle'] = 0
    laycls = m.globals['layer']
    z0 = e.sym_real('z0')
    names = [' 0', ' 1', ' 2', ' 3'] if convention in (0, 3) else ['atm', '  a', '  b', '  c']
    layers = [Obj(laycls, name=names[0], bottom=z0, centre=z0, top=z0)]
    top = z0
    for i in range(1, NL + 1):
        b = e.sym_real('bottom%d' % i)
        c = e.sym_real('centre%d' % i)
        e.assume(z3.And(b < c, c < top))
        layers.append(Obj(laycls, name=names[i], bottom=b, centre=c, top=top))
        top = b
    f['layerlist'] = layers
    f['layer'] = dict((l.fields['name'], l) for l in layers)
    f['connectionlist'] = []
    f['columnlist'] = []
    f['column'] = {}
    return geo


def make_col(e, geo, name, tag, with_surface=True):
    m = e.load_module('mulgrids')
    col = Obj(m.globals['column'])
    surf = e.sym_real('surface' + tag) if with_surface else None
    col.fields.update(name=name, _surface=surf, default_surface=(surf is None),
                      area=e.sym_real('area' + tag), centre=NVec([e.sym_real('cx' + tag), e.sym_real('cy' + tag)]),
                      node=[], num_layers=0, neighbour=set(), connection=set())
    e.assume(col.fields['area'] > 0)
    geo.fields['columnlist'].append(col)
    geo.fields['column'][name] = col
    return col


def spec_block_top(geo, i, col):
    """Block top per the property statement: the layer top, or the column surface in the
    column's top block (the first layer from the top whose bottom lies below the surface;
    above the top of the grid that is layer 1).  None when the column has no block there."""
    lay = geo.fields['layerlist'][i]
    s, b, t = col.fields['_surface'], lay.fields['bottom'], lay.fields['top']
    gridtop = geo.fields['layerlist'][0].fields['top']
    exists = s > b
    if i == 1:
        top = z3.If(s <= t, s, s)              # layer 1 is the top block whenever it exists
        top = s if True else top
        top = z3.If(s <= t, s, z3.If(s > gridtop, s, t))
    else:
        top = z3.If(s <= t, s, t)
    return exists, top


def p_block_functions(e, arg):
    i, atm = arg
    tag = '[layer%d,atm%d]' % (i, atm)
    def prog(e):
        geo = make_geo(e, atm)
        col = make_col(e, geo, '  a', '')
        lay = geo.fields['layerlist'][i]
        exists, top = spec_block_top(geo, i, col)
        surf = e.call(e.get_function('mulgrids.mulgrid.block_surface'), [geo, lay, col])
        vol = e.call(e.get_function('mulgrids.mulgrid.block_volume'), [geo, lay, col])
        cen = e.call(e.get_function('mulgrids.mulgrid.block_centre'), [geo, lay, col])
        if surf is None:
            e.prove(z3.Not(exists), 'post:block_surface_none_iff_no_block' + tag)
        else:
            e.prove(exists, 'post:block_surface_none_iff_no_block' + tag)
            e.prove(to_real(surf) == top, 'post:block_surface_is_block_top' + tag)
        if vol is None:
            e.prove(z3.Not(exists), 'post:block_volume_none_iff_no_block' + tag)
        else:
            e.prove(z3.And(exists, to_real(vol) == (top - lay.fields['bottom']) * col.fields['area']), 'post:block_volume_is_area_times_height' + tag)
        s, b, t = col.fields['_surface'], lay.fields['bottom'], lay.fields['top']
        if cen is None:
            e.prove(z3.Not(exists), 'post:block_centre_none_iff_no_block' + tag)
        else:
            want = z3.If(z3.And(b < s, s <= t), (b + s) / 2, lay.fields['centre'])
            e.prove(z3.And(exists, to_real(cen.items[2]) == want, to_real(cen.items[0]) == col.fields['centre'].items[0],
                           to_real(cen.items[1]) == col.fields['centre'].items[1]), 'post:block_centre' + tag)
    e.explore(prog, 'block_functions')


def p_atmosphere_blocks(e, atm):
    tag = '[atm%d]' % atm
    def prog(e):
        geo = make_geo(e, atm)
        col = make_col(e, geo, geo.fields.get('atmosphere_column_name', 'ATM') if atm == 0 else '  a', '')
        lay = geo.fields['layerlist'][0]
        vol = e.call(e.get_function('mulgrids.mulgrid.block_volume'), [geo, lay, col])
        if atm in (0, 1):
            e.prove(vol is not None and L.equals(e, vol, geo.fields['atmosphere_volume']) is True, 'post:atmosphere_block_volume' + tag)
        else:
            e.prove(vol is None, 'post:atmosphere_block_volume' + tag)
    e.explore(prog, 'atmosphere_blocks')


def p_column_volume(e, _a=None):
    """Total rock volume of a column = area x depth from the surface to the bottom of the
    lowest layer (the block volumes telescope)."""
    def prog(e):
        geo = make_geo(e, 2)
        col = make_col(e, geo, '  a', '')
        s = col.fields['_surface']
        lowest = geo.fields['layerlist'][NL].fields['bottom']
        e.assume(s > lowest)
        total = 0
        for i in range(1, NL + 1):
            v = e.call(e.get_function('mulgrids.mulgrid.block_volume'), [geo, geo.fields['layerlist'][i], col])
            if v is not None:
                total = total + to_real(v)
        e.prove(total == col.fields['area'] * (s - lowest), 'lemma:column_volume_telescopes')
    e.explore(prog, 'column_volume')


def _connection(e, geo, c0, c1):
    m = e.load_module('mulgrids')
    nodecls, concls = m.globals['node'], m.globals['connection']
    n0 = Obj(nodecls, name='  a', pos=NVec([e.sym_real('n0x'), e.sym_real('n0y')]), column=set())
    n1 = Obj(nodecls, name='  b', pos=NVec([e.sym_real('n1x'), e.sym_real('n1y')]), column=set())
    e.assume(z3.Or(n0.fields['pos'].items[0] != n1.fields['pos'].items[0], n0.fields['pos'].items[1] != n1.fields['pos'].items[1]))
    con = Obj(concls, column=[c0, c1], node=[n0, n1])
    geo.fields['connectionlist'].append(con)
    return con, n0, n1


def p_connection_params(e, i):
    tag = '[layer%d]' % i
    def prog(e):
        e.timeout_ms = max(e.timeout_ms, 30000)
        geo = make_geo(e, 2)
        c0 = make_col(e, geo, '  a', '0')
        c1 = make_col(e, geo, '  b', '1')
        lay = geo.fields['layerlist'][i]
        for c in (c0, c1):
            e.assume(c.fields['_surface'] > lay.fields['bottom'])      # both blocks exist (caller filters layercols)
        con, n0, n1 = _connection(e, geo, c0, c1)
        try:
            dist, area = e.call(e.get_function('mulgrids.mulgrid.connection_params'), [geo, con, lay])
        except PyExc as ex:
            e.fail('safety:connection_params' + tag, 'raises %s' % ex.cls)
            return
        h = []
        for c in (c0, c1):
            ex_, top = spec_block_top(geo, i, c)
            h.append(top - lay.fields['bottom'])
        dx = n1.fields['pos'].items[0] - n0.fields['pos'].items[0]
        dy = n1.fields['pos'].items[1] - n0.fields['pos'].items[1]
        hmin = z3.If(h[0] <= h[1], h[0], h[1])
        # area = edge length x lower block height:  area >= 0 and area^2 == |edge|^2 * hmin^2
        e.prove(z3.And(to_real(area) >= 0, to_real(area) * to_real(area) == (dx * dx + dy * dy) * hmin * hmin),
                'post:horizontal_area_is_edge_length_times_lower_height' + tag)
        for k, c in enumerate((c0, c1)):
            ax = c.fields['centre'].items[0] - n0.fields['pos'].items[0]
            ay = c.fields['centre'].items[1] - n0.fields['pos'].items[1]
            cross = dx * ay - dy * ax
            e.prove(z3.And(to_real(dist[k]) >= 0, to_real(dist[k]) * to_real(dist[k]) * (dx * dx + dy * dy) == cross * cross),
                    'post:distance_is_perpendicular_distance_to_edge[%d]%s' % (k, tag))
    e.explore(prog, 'connection_params')


def _grid_with_blocks(e, geo, cols):
    """A t2grid record holding the real blocks the real code would create for these columns."""
    g = e.load_module('t2grids')
    grid = Obj(g.globals['t2grid'])
    e.call(e.get_function('t2grids.t2grid.empty'), [grid])
    rt = e.call(g.globals['rocktype'], [])
    e.call(e.get_function('t2grids.t2grid.add_rocktype'), [grid, rt])
    e.call(e.get_function('t2grids.t2grid.add_atmosphereblocks'), [grid, geo, {}])
    for lay in geo.fields['layerlist'][1:]:
        for col in cols:
            cen = e.call(e.get_function('mulgrids.mulgrid.block_centre'), [geo, lay, col])
            if cen is None:
                continue
            vol = e.call(e.get_function('mulgrids.mulgrid.block_volume'), [geo, lay, col])
            name = e.call(e.get_function('mulgrids.mulgrid.block_name'), [geo, lay.fields['name'], col.fields['name']])
            blk = e.call(g.globals['t2block'], [name, vol, rt], {'centre': cen})
            e.call(e.get_function('t2grids.t2grid.add_block'), [grid, blk])
    return grid


def p_vertical_connection(e, arg):
    i, atm = arg
    tag = '[layer%d,atm%d]' % (i, atm)
    def prog(e):
        geo = make_geo(e, atm)
        col = make_col(e, geo, '  a', '')
        lay = geo.fields['layerlist'][i]
        s = col.fields['_surface']
        e.assume(s > lay.fields['bottom'])
        grid = _grid_with_blocks(e, geo, [col])
        n0 = len(grid.fields['connectionlist'])
        e.call(e.get_function('t2grids.t2grid.add_vertical_layer_connections'), [grid, geo, lay, [col]])
        cons = grid.fields['connectionlist'][n0:]
        top_block = z3.Or(i == 1, s <= lay.fields['top'])    # this block is the column's top block
        if not cons:
            e.prove(z3.And(top_block, atm == 2), 'post:vertical_connection_exists' + tag)
            return
        con = cons[0]
        this, above = con.fields['block']
        thisname = e.call(e.get_function('mulgrids.mulgrid.block_name'), [geo, lay.fields['name'], col.fields['name']])
        e.prove(this.fields['name'] == thisname and len(cons) == 1, 'post:vertical_connection_lower_block_first' + tag)
        e.prove(L.equals(e, con.fields['area'], col.fields['area']), 'post:vertical_area_is_column_area' + tag)
        e.prove(L.equals(e, con.fields['dircos'], -1), 'post:vertical_gravity_cosine_minus_one' + tag)
        e.prove(con.fields['direction'] == 3, 'post:vertical_direction_3' + tag)
        d0, d1 = [to_real(x) for x in con.fields['distance']]
        zc = to_real(this.fields['centre'].items[2])
        if above.fields.get('atmosphere'):
            e.prove(top_block, 'post:atmosphere_connection_only_from_top_block' + tag)
            e.prove(z3.And(d0 == s - zc, d1 == to_real(geo.fields['atmosphere_connection'])), 'post:atmosphere_connection_distances' + tag)
        else:
            e.prove(z3.Not(top_block), 'post:atmosphere_connection_only_from_top_block' + tag)
            za = to_real(above.fields['centre'].items[2])
            e.prove(z3.And(d0 + d1 == za - zc, d0 > 0, d1 > 0), 'post:vertical_distances_add_to_centre_separation' + tag)
            abovename = e.call(e.get_function('mulgrids.mulgrid.block_name'), [geo, geo.fields['layerlist'][i - 1].fields['name'], col.fields['name']])
            e.prove(above.fields['name'] == abovename, 'post:vertical_connection_upper_block_is_layer_above' + tag)
        # bookkeeping done by add_connection
        key = (this.fields['name'], above.fields['name'])
        e.prove(grid.fields['connection'].get(key) is con and key in this.fields['connection_name'] and key in above.fields['connection_name'],
                'post:connection_registered_under_block_names' + tag)
    e.explore(prog, 'vertical_connection')


def p_connection_names(e, atm):
    """The grid has exactly the blocks and connections the geometry's own block-name and
    connection-name lists announce, in the same order and orientation (one column)."""
    tag = '[atm%d]' % atm
    def prog(e):
        geo = make_geo(e, atm)
        col = make_col(e, geo, '  a', '')
        e.assume(col.fields['_surface'] > geo.fields['layerlist'][NL].fields['bottom'])
        geo.fields['block_order'] = None
        geo.fields['_block_order'] = None
        e.call(e.get_function('mulgrids.mulgrid.setup_block_name_index'), [geo])
        e.call(e.get_function('mulgrids.mulgrid.setup_block_connection_name_index'), [geo])
        g = e.load_module('t2grids')
        grid = Obj(g.globals['t2grid'])
        e.call(e.get_function('t2grids.t2grid.fromgeo'), [grid, geo])
        names = [b.fields['name'] for b in grid.fields['blocklist']]
        e.prove(names == geo.fields['block_name_list'], 'post:blocks_are_the_announced_blocks_in_order' + tag)
        cnames = [tuple(b.fields['name'] for b in c.fields['block']) for c in grid.fields['connectionlist']]
        e.prove(cnames == geo.fields['block_connection_name_list'], 'post:connections_are_the_announced_connections_in_order' + tag)
    e.explore(prog, 'connection_names')


def p_horizontal_connection(e, i):
    tag = '[layer%d]' % i
    def prog(e):
        geo = make_geo(e, 2)
        c0 = make_col(e, geo, '  a', '0')
        c1 = make_col(e, geo, '  b', '1')
        lay = geo.fields['layerlist'][i]
        for c in (c0, c1):
            e.assume(c.fields['_surface'] > lay.fields['bottom'])
        e.assume(z3.Or(c0.fields['centre'].items[0] != c1.fields['centre'].items[0], c0.fields['centre'].items[1] != c1.fields['centre'].items[1]))
        con, n0, n1 = _connection(e, geo, c0, c1)
        grid = _grid_with_blocks(e, geo, [c0, c1])
        # connection_params has its own contract (p_connection_params): opaque here
        dd = [e.sym_real('dist0', 0), e.sym_real('dist1', 0)]
        aa = e.sym_real('area', 0)
        e.opaque['mulgrid.connection_params'] = lambda eng, args, kwargs: [dd, aa]
        n_before = len(grid.fields['connectionlist'])
        e.call(e.get_function('t2grids.t2grid.add_horizontal_layer_connections'), [grid, geo, lay, [c0, c1]])
        cons = grid.fields['connectionlist'][n_before:]
        e.prove(len(cons) == 1, 'post:one_horizontal_connection_per_column_connection' + tag)
        if len(cons) != 1:
            return
        tc = cons[0]
        b0, b1 = tc.fields['block']
        e.prove(b0.fields['name'] == e.call(e.get_function('mulgrids.mulgrid.block_name'), [geo, lay.fields['name'], '  a']) and
                b1.fields['name'] == e.call(e.get_function('mulgrids.mulgrid.block_name'), [geo, lay.fields['name'], '  b']),
                'post:horizontal_connection_orientation_follows_column_connection' + tag)
        e.prove(tc.fields['distance'] is dd and tc.fields['area'] is aa, 'post:horizontal_connection_uses_connection_params' + tag)
        dz = to_real(b1.fields['centre'].items[2]) - to_real(b0.fields['centre'].items[2])
        dx = to_real(b1.fields['centre'].items[0]) - to_real(b0.fields['centre'].items[0])
        dy = to_real(b1.fields['centre'].items[1]) - to_real(b0.fields['centre'].items[1])
        dc = to_real(tc.fields['dircos'])
        # cosine of the centre-to-centre line against gravity (untilted): -dz / |d|
        e.prove(z3.And(dc * dz <= 0, dc * dc * (dx * dx + dy * dy + dz * dz) == dz * dz), 'post:horizontal_gravity_cosine' + tag)
        e.prove((dc == 0) == (dz == 0), 'post:horizontal_gravity_cosine_zero_iff_equal_elevation' + tag)
        e.prove(z3.Or(tc.fields['direction'] == 1, tc.fields['direction'] == 2) if z3.is_expr(tc.fields['direction']) else tc.fields['direction'] in (1, 2),
                'post:horizontal_direction_1_or_2' + tag)
    e.explore(prog, 'horizontal_connection')


def p_tilt(e, _a=None):
    def prog(e):
        geo = make_geo(e, 2)
        tv = e.call(e.get_function('mulgrids.mulgrid.get_tilt_vector'), [geo])
        e.prove(all(L.equals(e, a, b) is True for a, b in zip(tv.items, [0, 0, -1])), 'post:tilt_vector_untilted_is_minus_z')
        gx, gy = e.sym_real('gdcx'), e.sym_real('gdcy')
        geo.fields['gdcx'], geo.fields['gdcy'] = gx, gy
        e.assume(z3.And(gy * gy < 1, gx * gx < 1 - gy * gy))      # no clamp active
        tv = e.call(e.get_function('mulgrids.mulgrid.get_tilt_vector'), [geo])
        x, y, z = [to_real(v) for v in tv.items]
        e.prove(x * x + y * y + z * z == 1, 'post:tilt_vector_unit_length')
        e.prove(z3.And(x == gx, y == gy, z <= 0), 'post:tilt_vector_components')
    e.explore(prog, 'tilt')


def p_polygon_area(e, n):
    def prog(e):
        pts = [NVec([e.sym_real('x%d' % k), e.sym_real('y%d' % k)]) for k in range(n)]
        orig = [(p.items[0], p.items[1]) for p in pts]
        poly = L.np_array.fn(e, pts)
        a = e.call(e.get_function('geometry.polygon_area'), [poly])
        sh = 0
        for k in range(n):
            x1, y1 = orig[k]
            x2, y2 = orig[(k + 1) % n]
            sh = sh + (x1 * y2 - x2 * y1)
        e.prove(2 * to_real(a) == sh, 'post:polygon_area_is_shoelace[n=%d]' % n)
    e.explore(prog, 'polygon_area')


def _valid(e, cond, timeout=20000):
    return e.valid(cond, timeout)


def build_rect(e, nx, ny, nz, atm, convention, nsurf, block_order=None, origin=None):
    """A real rectangular geometry (mulgrid.rectangular run by the executor) with symbolic spacings and origin,
    and symbolic surfaces on the first `nsurf` columns.  Returns (geo, spec) where spec holds the quantities the
    statement talks about, computed from the inputs (not from the code)."""
    m = e.load_module('mulgrids').globals
    dx = [e.sym_real('dx%d' % k) for k in range(nx)]; dy = [e.sym_real('dy%d' % k) for k in range(ny)]; dz = [e.sym_real('dz%d' % k) for k in range(nz)]
    org = list(origin) if origin is not None else [e.sym_real('ox'), e.sym_real('oy'), e.sym_real('oz')]
    for v in dx + dy + dz:
        e.assume(v > 0)
    g0 = e.call(m['mulgrid'], [])
    geo = e.call(e.getattr(g0, 'rectangular'), [list(dx), list(dy), list(dz)], {'atmos_type': atm, 'convention': convention, 'origin': list(org), 'block_order': block_order})
    geo.fields['atmosphere_volume'] = e.sym_real('atmvol'); geo.fields['atmosphere_connection'] = e.sym_real('atmcon')
    e.assume(z3.And(geo.fields['atmosphere_volume'] > 0, geo.fields['atmosphere_connection'] > 0))
    bottoms = [org[2] - sum(dz[:k + 1]) for k in range(nz)]          # layer k+1 bottom
    tops = [org[2]] + bottoms[:-1]
    surf = {}
    cols = geo.fields['columnlist']
    for k in range(min(nsurf, len(cols))):
        sv = e.sym_real('surf%d' % k)
        e.assume(sv > bottoms[-1])                                    # anywhere from the bottom layer to above the top layer
        e.setattr(cols[k], 'surface', sv)
        e.call(e.getattr(geo, 'set_column_num_layers'), [cols[k]])
        surf[k] = sv
    if nsurf:
        e.call(e.getattr(geo, 'setup_block_name_index'), [])
        e.call(e.getattr(geo, 'setup_block_connection_name_index'), [])
    spec = {'dx': dx, 'dy': dy, 'dz': dz, 'org': org, 'bottoms': bottoms, 'tops': tops,
            'surf': [surf.get(j * nx + i, org[2]) for j in range(ny) for i in range(nx)],
            'area': [dx[i] * dy[j] for j in range(ny) for i in range(nx)],
            'cx': [org[0] + sum(dx[:i]) + dx[i] / 2 for j in range(ny) for i in range(nx)],
            'cy': [org[1] + sum(dy[:j]) + dy[j] / 2 for j in range(ny) for i in range(nx)]}
    return geo, spec


def p_fromgeo_rect(e, arg):
    """t2grid.fromgeo on a real rectangular geometry: every clause of the statement on every block and connection."""
    nx, ny, nz, atm, convention, nsurf = arg
    tag = '[%dx%dx%d,atm%d,conv%d,%d surfaces]' % (nx, ny, nz, atm, convention, nsurf)
    def prog(e):
        geo, S = build_rect(e, nx, ny, nz, atm, convention, nsurf)
        tg = e.load_module('t2grids').globals
        grid = e.call(e.getattr(e.call(tg['t2grid'], []), 'fromgeo'), [geo])
        gf, tf = geo.fields, grid.fields
        names = [b.fields['name'] for b in tf['blocklist']]
        e.prove(names == gf['block_name_list'] and len(set(names)) == len(names) and len(names) >= 2, 'post:blocks_are_the_announced_blocks_in_order' + tag)
        cnames = [tuple(b.fields['name'] for b in c.fields['block']) for c in tf['connectionlist']]
        e.prove(cnames == gf['block_connection_name_list'] and len(set(cnames)) == len(cnames), 'post:connections_are_the_announced_connections_in_order' + tag)
        natm = 1 if atm == 0 else (nx * ny if atm == 1 else 0)
        colidx = dict((c.fields['name'], k) for k, c in enumerate(gf['columnlist']))
        layidx = dict((l.fields['name'], k) for k, l in enumerate(gf['layerlist']))
        # which (column, layer) each underground block is, through the geometry's own inverse naming
        where = {}
        okv, okc, total, why = True, True, 0, ''
        for b in tf['blocklist'][natm:]:
            nm = b.fields['name']
            ci = colidx[e.call(e.getattr(geo, 'column_name'), [nm])]; li = layidx[e.call(e.getattr(geo, 'layer_name'), [nm])]
            where[nm] = (ci, li)
            bot, top, sf = S['bottoms'][li - 1], S['tops'][li - 1], S['surf'][ci]
            # the block exists on this path, so its column surface is above the layer bottom; its top is the surface in the top block
            is_top = z3.Or(sf <= top, li == 1)
            btop = z3.If(is_top, sf, top)
            if not _valid(e, to_real(b.fields['volume']) == S['area'][ci] * (btop - bot)):
                okv, why = False, 'block %r volume %s' % (nm, b.fields['volume'])
            cen = b.fields['centre']
            wantz = z3.If(z3.And(sf <= top), (bot + sf) / 2, gf['layerlist'][li].fields['centre'])
            if not _valid(e, z3.And(to_real(cen.items[0]) == S['cx'][ci], to_real(cen.items[1]) == S['cy'][ci], to_real(cen.items[2]) == wantz)):
                okc, why = False, 'block %r centre %s' % (nm, cen.items)
            total = total + to_real(b.fields['volume'])
        e.prove(okv, 'post:block_volume_is_area_times_height_to_block_top' + tag)
        e.prove(okc, 'post:block_centre_is_column_centre_and_mid_height' + tag)
        e.prove(_valid(e, total == sum(S['area'][k] * (S['surf'][k] - S['bottoms'][-1]) for k in range(nx * ny))), 'post:total_rock_volume_is_sum_of_area_times_depth_to_surface' + tag)
        e.prove(all(_valid(e, to_real(b.fields['volume']) == to_real(gf['atmosphere_volume'])) for b in tf['blocklist'][:natm]), 'post:atmosphere_blocks_have_the_atmosphere_volume' + tag)
        okh, okvert, okatm, okcos = True, True, True, True
        nh = nv = na = 0
        for c in tf['connectionlist']:
            b0, b1 = c.fields['block']
            n0, n1 = b0.fields['name'], b1.fields['name']
            d0, d1 = [to_real(x) for x in c.fields['distance']]
            if n0 in where and n1 in where and where[n0][1] == where[n1][1]:
                nh += 1
                (c0, li), (c1, _) = where[n0], where[n1]
                i0, j0, i1, j1 = c0 % nx, c0 // nx, c1 % nx, c1 // nx
                xdir = j0 == j1
                edge = S['dy'][j0] if xdir else S['dx'][i0]
                half0, half1 = (S['dx'][i0] / 2, S['dx'][i1] / 2) if xdir else (S['dy'][j0] / 2, S['dy'][j1] / 2)
                bot, top = S['bottoms'][li - 1], S['tops'][li - 1]
                h = lambda ci: z3.If(z3.Or(S['surf'][ci] <= top, li == 1), S['surf'][ci], top) - bot
                hmin = z3.If(h(c0) <= h(c1), h(c0), h(c1))
                if not _valid(e, z3.And(to_real(c.fields['area']) == edge * hmin, d0 == half0, d1 == half1)):
                    okh, why = False, 'connection %r area %s distances %s' % ((n0, n1), c.fields['area'], c.fields['distance'])
                z0c, z1c = to_real(b0.fields['centre'].items[2]), to_real(b1.fields['centre'].items[2])
                dc = to_real(c.fields['dircos'])
                sep = half0 + half1
                # cosine of the centre-to-centre line against gravity (0, 0, -1): -(z1 - z0) / |d|
                if not _valid(e, z3.And(dc * dc * (sep * sep + (z1c - z0c) * (z1c - z0c)) == (z1c - z0c) * (z1c - z0c), (dc > 0) == (z1c < z0c), (dc == 0) == (z1c == z0c))):
                    okcos, why = False, 'connection %r dircos %s' % ((n0, n1), c.fields['dircos'])
                want_dir = 1 if xdir else 2
                if c.fields['direction'] != want_dir and not _valid(e, to_int(c.fields['direction']) == want_dir):
                    okh, why = False, 'connection %r direction %s' % ((n0, n1), c.fields['direction'])
            elif n0 in where and n1 in where:
                nv += 1
                (c0, l0), (c1, l1) = where[n0], where[n1]
                z0c, z1c = to_real(b0.fields['centre'].items[2]), to_real(b1.fields['centre'].items[2])
                if not (c0 == c1 and l0 == l1 + 1 and _valid(e, z3.And(to_real(c.fields['area']) == S['area'][c0], to_real(c.fields['dircos']) == -1, d0 + d1 == z1c - z0c, d0 > 0, d1 > 0))
                        and c.fields['direction'] == 3):
                    okvert, why = False, 'connection %r area %s distances %s dircos %s' % ((n0, n1), c.fields['area'], c.fields['distance'], c.fields['dircos'])
            else:
                na += 1
                ci = where[n0][0]
                z0c = to_real(b0.fields['centre'].items[2])
                if not (n0 in where and n1 not in where and _valid(e, z3.And(to_real(c.fields['area']) == S['area'][ci], to_real(c.fields['dircos']) == -1, d0 == S['surf'][ci] - z0c,
                                                                         d1 == to_real(gf['atmosphere_connection']))) and c.fields['direction'] == 3):
                    okatm, why = False, 'connection %r area %s distances %s' % ((n0, n1), c.fields['area'], c.fields['distance'])
        for name, ok in (('post:horizontal_connection_area_edge_times_lower_height_and_perpendicular_distances', okh),
                         ('post:horizontal_connection_cosine_is_that_of_the_centre_line_against_gravity', okcos),
                         ('post:vertical_connection_column_area_cosine_minus_1_distances_add_up', okvert),
                         ('post:atmosphere_connection_distance_to_surface_and_atmosphere_distance', okatm)):
            if ok:
                e.prove(True, name + tag)
            else:
                e.fail(name + tag, why)
        e.prove(nh >= (1 if nx * ny > 1 else 0) and nv >= (nx * ny - min(nsurf, nx * ny)) * (nz - 1) and (na == nx * ny if atm in (0, 1) else na == 0), 'cover:each_connection_kind_present' + tag)
    e.explore(prog, 'fromgeo_rect')


def p_fromgeo_refined(e, arg):
    """fromgeo on an irregular geometry: a real rectangular geometry refined on a subset of columns by the real refine()
    (quadrilaterals and triangles with symbolic vertex coordinates).  Block and connection lists as announced, volumes, total
    rock volume, vertical and atmosphere connections exactly; horizontal connections through their squares (the edge length
    and the perpendicular distances are square roots): area^2 = |edge|^2 x (lower height)^2, distance_i^2 x |edge|^2 =
    cross(edge, centre_i - node)^2."""
    (nx, ny, nz, atm), nsurf, cols = arg[:3]
    order = arg[3] if len(arg) > 3 else None
    tag = '[%dx%dx%d,atm%d,%d surfaces,refine%s%s]' % (nx, ny, nz, atm, nsurf, tuple(cols), ',order=%s' % order if order else '')
    def prog(e):
        geo, S = build_rect(e, nx, ny, nz, atm, 0, nsurf, block_order=order)
        e.call(e.getattr(geo, 'refine'), [[geo.fields['columnlist'][k] for k in cols]])
        tg = e.load_module('t2grids').globals
        grid = e.call(e.getattr(e.call(tg['t2grid'], []), 'fromgeo'), [geo])
        gf, tf = geo.fields, grid.fields
        names = [b.fields['name'] for b in tf['blocklist']]
        e.prove(names == gf['block_name_list'] and len(set(names)) == len(names), 'post:blocks_are_the_announced_blocks_in_order' + tag)
        cnames = [tuple(b.fields['name'] for b in c.fields['block']) for c in tf['connectionlist']]
        e.prove(cnames == gf['block_connection_name_list'] and len(set(cnames)) == len(cnames), 'post:connections_are_the_announced_connections_in_order' + tag)
        natm = {0: 1, 1: len(gf['columnlist']), 2: 0}[atm]
        col = dict((c.fields['name'], c) for c in gf['columnlist']); lay = dict((l.fields['name'], l) for l in gf['layerlist'])
        li_of = dict((l.fields['name'], k) for k, l in enumerate(gf['layerlist']))
        where, okv, total = {}, True, z3.RealVal(0)
        def btop(c, l):
            sf, top = to_real(e.getattr(c, 'surface')), to_real(l.fields['top'])
            return z3.If(z3.Or(sf <= top, li_of[l.fields['name']] == 1), sf, top)
        for b in tf['blocklist'][natm:]:
            nm = b.fields['name']
            c = col[e.call(e.getattr(geo, 'column_name'), [nm])]; l = lay[e.call(e.getattr(geo, 'layer_name'), [nm])]
            where[nm] = (c, l)
            okv = okv and _valid(e, to_real(b.fields['volume']) == to_real(c.fields['area']) * (btop(c, l) - to_real(l.fields['bottom'])))
            total = total + to_real(b.fields['volume'])
        e.prove(okv, 'post:block_volume_is_area_times_height_to_block_top' + tag)
        bottom = to_real(gf['layerlist'][-1].fields['bottom'])
        e.prove(_valid(e, total == sum(to_real(c.fields['area']) * (to_real(e.getattr(c, 'surface')) - bottom) for c in gf['columnlist'])), 'post:total_rock_volume_is_sum_of_area_times_depth_to_surface' + tag)
        okh, okvert, okatm, why = True, True, True, ''
        nh = 0
        for c in tf['connectionlist']:
            b0, b1 = c.fields['block']
            n0, n1 = b0.fields['name'], b1.fields['name']
            d0, d1 = [to_real(x) for x in c.fields['distance']]
            if n0 in where and n1 in where and where[n0][1] is where[n1][1]:
                nh += 1
                (c0, l), (c1, _) = where[n0], where[n1]
                shared = [n for n in c0.fields['node'] if any(n is m for m in c1.fields['node'])]
                if len(shared) != 2:
                    okh, why = False, 'columns of %r share %d nodes' % ((n0, n1), len(shared)); continue
                (ax, ay), (bx, by) = [(to_real(n.fields['pos'].items[0]), to_real(n.fields['pos'].items[1])) for n in shared]
                ex, ey = bx - ax, by - ay
                e2 = ex * ex + ey * ey
                h0, h1 = btop(c0, l) - to_real(l.fields['bottom']), btop(c1, l) - to_real(l.fields['bottom'])
                hmin = z3.If(h0 <= h1, h0, h1)
                area = to_real(c.fields['area'])
                conds = [area >= 0, area * area == e2 * hmin * hmin]
                for d, cc in ((d0, c0), (d1, c1)):
                    cx, cy = to_real(cc.fields['centre'].items[0]) - ax, to_real(cc.fields['centre'].items[1]) - ay
                    cr = ex * cy - ey * cx
                    conds += [d >= 0, d * d * e2 == cr * cr]
                if not _valid(e, z3.And(*conds), timeout=60000):
                    okh, why = False, 'connection %r area %s distances %s' % ((n0, n1), c.fields['area'], c.fields['distance'])
            elif n0 in where and n1 in where:
                (c0, l0), (c1, l1) = where[n0], where[n1]
                z0c, z1c = to_real(b0.fields['centre'].items[2]), to_real(b1.fields['centre'].items[2])
                if not (c0 is c1 and _valid(e, z3.And(to_real(c.fields['area']) == to_real(c0.fields['area']), to_real(c.fields['dircos']) == -1, d0 + d1 == z1c - z0c, d0 > 0, d1 > 0))):
                    okvert, why = False, 'vertical connection %r' % ((n0, n1),)
            else:
                c0 = where[n0][0]
                z0c = to_real(b0.fields['centre'].items[2])
                if not _valid(e, z3.And(to_real(c.fields['area']) == to_real(c0.fields['area']), to_real(c.fields['dircos']) == -1, d0 == to_real(e.getattr(c0, 'surface')) - z0c, d1 == to_real(gf['atmosphere_connection']))):
                    okatm, why = False, 'atmosphere connection %r' % ((n0, n1),)
        for name, ok in (('post:horizontal_connection_area_and_perpendicular_distances_through_their_squares', okh), ('post:vertical_connection_column_area_cosine_minus_1_distances_add_up', okvert),
                         ('post:atmosphere_connection_distance_to_surface_and_atmosphere_distance', okatm)):
            if ok:
                e.prove(True, name + tag)
            else:
                e.fail(name + tag, why)
        e.prove(nh >= 3 and any(len(c.fields['node']) == 3 for c in gf['columnlist']), 'cover:triangles_and_horizontal_connections_present' + tag)
    e.explore(prog, 'fromgeo_refined')


REFINED = [((2, 1, 2, 0), 0, (0,)), ((2, 2, 2, 2), 0, (0,)), ((2, 1, 2, 1), 0, (0,), 'dmplex'), ((2, 1, 2, 0), 0, (1,), 'layer_column')]
REFINED_THOROUGH = [((2, 2, 2, 0), 1, (0,)), ((3, 2, 2, 1), 0, (0, 1)), ((2, 2, 3, 2), 1, (3,))]

RECTS = [(2, 1, 2, 0, 0, 1), (2, 1, 2, 1, 0, 2), (2, 2, 2, 2, 0, 1), (3, 1, 3, 0, 1, 1), (1, 2, 3, 1, 2, 1), (2, 1, 3, 2, 3, 2), (3, 2, 2, 0, 0, 0)]

PROGRAMS = [('p_block_functions', (i, atm)) for i in (1, 2, 3) for atm in (0, 1, 2)]
PROGRAMS += [('p_fromgeo_rect', r) for r in RECTS]
PROGRAMS += [('p_fromgeo_refined', r) for r in REFINED]
PROGRAMS += [('p_atmosphere_blocks', a) for a in (0, 1, 2)]
PROGRAMS += [('p_column_volume', None)]
PROGRAMS += [('p_connection_params', i) for i in (1, 2)]
PROGRAMS += [('p_vertical_connection', (i, atm)) for i in (1, 2, 3) for atm in (0, 1, 2)]
PROGRAMS += [('p_horizontal_connection', i) for i in (1, 2)]
PROGRAMS += [('p_tilt', None)]
PROGRAMS += [('p_connection_names', a) for a in (0, 1, 2)]
PROGRAMS += [('p_polygon_area', n) for n in (3, 4, 5, 6)]


RECTS_THOROUGH = [(3, 3, 3, 0, 0, 2), (4, 2, 3, 1, 0, 2), (2, 2, 4, 2, 2, 2), (3, 2, 3, 0, 3, 3), (5, 1, 2, 1, 1, 2), (1, 4, 3, 0, 0, 2), (3, 3, 2, 2, 0, 4)]


def programs(tier):
    return PROGRAMS + ([('p_fromgeo_rect', r) for r in RECTS_THOROUGH] + [('p_fromgeo_refined', r) for r in REFINED_THOROUGH] if tier == 'thorough' else [])


def _fl(v):
    return 'float(__import__("fractions").Fraction(%r)/__import__("fractions").Fraction(%r))' % (v['num'], v['den']) if isinstance(v, dict) else repr(v)


def replay(obname, model, result):
    """Native replay: a real one- or two-column geometry with the model's elevations."""
    m = model or {}
    prog = result['program']
    if prog == 'p_fromgeo_refined':
        return ("from contracts.c04_native import native_fromgeo_refined\nok, detail = native_fromgeo_refined(%r, %r)\n") % (tuple(result['arg']), m)
    if prog == 'p_fromgeo_rect':
        return ("from contracts.c04_native import native_fromgeo_rect\nok, detail = native_fromgeo_rect(%r, %r)\n") % (tuple(result['arg']), m)
    if prog in ('p_block_functions', 'p_column_volume', 'p_vertical_connection', 'p_connection_params', 'p_horizontal_connection', 'p_connection_names') and 'z0' in m:
        arg = result['arg']
        atm = arg[1] if isinstance(arg, tuple) else (arg if prog == 'p_connection_names' else 2)
        surf = [m.get('surface'), None] if 'surface' in m else [m.get('surface0'), m.get('surface1')]
        return ("import sys; sys.path.insert(0, '/verif')\n"
                "from bounded.c04_replay import replay_geometry\n"
                "ok, detail = replay_geometry(z0=%s, bottoms=[%s, %s, %s], centres=[%s, %s, %s], surfaces=[%s, %s], atm=%d)\n") % (
                    _fl(m['z0']), _fl(m['bottom1']), _fl(m['bottom2']), _fl(m['bottom3']), _fl(m['centre1']), _fl(m['centre2']), _fl(m['centre3']),
                    _fl(surf[0]) if surf[0] is not None else 'None', _fl(surf[1]) if surf[1] is not None else 'None', atm)
    if prog == 'p_polygon_area' and 'x0' in m:
        n = result['arg']
        pts = '[' + ', '.join('[%s, %s]' % (_fl(m['x%d' % k]), _fl(m['y%d' % k])) for k in range(n)) + ']'
        return ("import numpy as np\nfrom geometry import polygon_area\n"
                "pts = %s\n"
                "a = polygon_area(np.array([np.array(p) for p in pts]))\n"
                "sh = sum(pts[k][0] * pts[(k + 1) %% len(pts)][1] - pts[(k + 1) %% len(pts)][0] * pts[k][1] for k in range(len(pts)))\n"
                "ok = abs(2 * a - sh) <= 1e-9 * (abs(sh) + 1)\n"
                "detail = 'polygon_area = %%r, shoelace/2 = %%r' %% (a, sh / 2)\n") % pts
    return None
