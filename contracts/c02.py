"""C02 - contracts on fixed_format_file.fixed_format_file (real source) for every record
kind of the four format tables (taken from the real modules at every run).

T1  table:line_spec      preprocess_specification gives, for field k of every record kind,
                         columns (sum_{j<k}|w_j|, sum_{j<=k}|w_j|), the type letter, and
                         spec_width[fmt] == |w|.
T2  body contract        write_values_to_string on a one-field record with the real format:
                         the piece written for one value has exactly |w| columns, or the
                         write raises ValueError; plus the value clause per type.
T3  glue                 on every real record kind, with the loop body summarised by its
                         contract (one piece of |w_k| columns per value): the written line
                         carries piece k in columns [lo_k, hi_k) of line_spec, and
                         parse_string hands exactly that slice to the reader of type k -
                         no value is displaced into a neighbouring field.
T4  readers              the default / fortran read-function tables: blank field -> None
                         (numbers) / blanks (names); written integer reads back exactly.
"""
import ast
import z3
from pyvc.engine import Obj, Builtin
from pyvc import library as L
from pyvc import values as V
from pyvc.values import SymStr, z_and, z_or, z_not, z_eq, to_int, PyExc, Unsupported, concretize, norm_str

FUNCS = ['fixed_format_file.fixed_format_file.preprocess_specification',
         'fixed_format_file.fixed_format_file.write_values_to_string',
         'fixed_format_file.fixed_format_file.fit_value_to_width',
         'fixed_format_file.fixed_format_file.parse_string',
         'fixed_format_file.value_error_none', 'fixed_format_file.read_function_dict']

TABLES = [('t2data', 't2data_format_specification', 'default_read_function'),
          ('t2data', 't2data_extra_precision_format_specification', 'default_read_function'),
          ('t2incons', 't2incon_format_specification', 'fortran_read_function'),
          ('mulgrids', 'mulgrid_format_specification', 'default_read_function')]


def get_table(e, ti):
    mod, name, rf = TABLES[ti]
    return e.load_module(mod).globals[name]


def width_of(fmt):
    """|w| of a format such as '10.4e', '5d', '-4s' - the specification of the statement
    (the integer before the point, sign ignored), independent of the code."""
    body = fmt[:-1].split('.')[0]
    return abs(int(body))


def make_fff(e, spec, read_function=None):
    cls = e.load_module('fixed_format_file').globals['fixed_format_file']
    o = Obj(cls)
    o.fields['specification'] = spec
    o.fields['read_function'] = read_function if read_function is not None else \
        e.load_module('fixed_format_file').globals['default_read_function']
    e.call(e.get_function('fixed_format_file.fixed_format_file.preprocess_specification'), [o])
    return o


def p_line_spec(e, ti):
    def prog(e):
        table = get_table(e, ti)
        o = make_fff(e, table)
        for kind, (names, fmts) in table.items():
            pos = 0
            ok = len(o.fields['line_spec'][kind]) == len(fmts)
            for k, f in enumerate(fmts):
                w = width_of(f)
                if ok:
                    ok = o.fields['line_spec'][kind][k] == ((pos, pos + w), f[-1]) and \
                        o.fields['spec_width'][f[:-1]] == w and w > 0
                pos += w
            ok = ok and len(names) == len(fmts)
            if ok:
                e.prove(True, 'table:line_spec[%s.%s]' % (TABLES[ti][1], kind))
            else:
                e.fail('table:line_spec[%s.%s]' % (TABLES[ti][1], kind),
                       'line_spec %r for formats %r' % (o.fields['line_spec'][kind], fmts), model={'table': TABLES[ti][1], 'kind': kind})
    e.explore(prog, 'line_spec')


def all_formats(e):
    fmts = {}
    for ti in range(len(TABLES)):
        for kind, (names, fs) in get_table(e, ti).items():
            for f in fs:
                fmts.setdefault(f, (ti, kind))
    return fmts


def _write_one(e, fmt, val):
    o = make_fff(e, {'k': [['v'], [fmt]]})
    fn = e.get_function('fixed_format_file.fixed_format_file.write_values_to_string')
    try:
        return 'value', e.call(fn, [o, [val], 'k'])
    except PyExc as ex:
        return 'raise', ex.cls


def p_field(e, fmt):
    """Body contract of the write loop for one format."""
    typ = fmt[-1]
    w = width_of(fmt)
    tag = '[%s]' % fmt

    def check_len(e, kind, r):
        if kind == 'raise':
            e.prove(r == 'ValueError', 'safety:only_ValueError' + tag)
            return False
        e.prove(L.b_len.fn(e, r) == w, 'post:piece_has_field_width' + tag)
        return True

    def prog_none(e):
        kind, r = _write_one(e, fmt, None)
        if kind == 'raise':
            e.fail('post:absent_value_is_blank' + tag, 'raises %s' % r)
            return
        e.prove(L.equals(e, r, ' ' * w), 'post:absent_value_is_blank' + tag)
    e.explore(prog_none, 'field-none')

    if typ == 'x':
        def prog_x(e):
            kind, r = _write_one(e, fmt, e.sym_int('v'))
            e.prove(kind == 'value' and L.equals(e, r, ' ' * w) is True, 'post:skip_field_is_blank' + tag)
        e.explore(prog_x, 'field-x')
    elif typ == 'd':
        def prog_d(e):
            v = e.sym_int('v', -10 ** (w + 1), 10 ** (w + 1))   # up to two digits past the field width
            kind, r = _write_one(e, fmt, v)
            fits = z3.And(v > -10 ** (w - 1), v < 10 ** w)
            if kind == 'raise':
                e.prove(r == 'ValueError', 'safety:only_ValueError' + tag)
                e.prove(z3.Not(fits), 'post:integer_that_fits_is_written' + tag)
                return
            e.prove(L.b_len.fn(e, r) == w, 'post:piece_has_field_width' + tag)
            e.prove(fits, 'post:integer_that_does_not_fit_fails_loudly' + tag)
            rs = SymStr.of(r)
            if not rs.fixed:        # length proved == w just above: continue with the fixed-width view
                e.assume(rs.n == w)
                r = SymStr(rs.chars[:w])
            acc, val = V.int_grammar(r)
            e.prove(z_and(acc, z_eq(val, v)), 'post:integer_reads_back_exactly' + tag)
        e.explore(prog_d, 'field-d')
    elif typ == 's':
        def prog_s(e):
            s = e.sym_str('v', maxlen=w + 2)
            kind, r = _write_one(e, fmt, s)
            if not check_len(e, kind, r):
                return
            left = fmt.startswith('-')
            env = {'r': r, 's': s, 'w': w}
            if left:
                e.prove(e.eval_str('r == (s.ljust(w))[0:w]', env), 'post:name_written_in_its_columns' + tag)
            else:
                e.prove(e.eval_str('r == (s.rjust(w))[0:w]', env), 'post:name_written_in_its_columns' + tag)
        e.explore(prog_s, 'field-s')
    else:
        def prog_r(e):
            v = e.sym_real('v')
            kind, r = _write_one(e, fmt, v)
            if not check_len(e, kind, r):
                return
            # the piece is a %-format of this very value, at the field's or a reduced precision
            ok = isinstance(r, L.AbsStr) and r.val is v and r.fmt[-1] == typ
            if ok:
                prec = int(fmt[:-1].split('.')[1])
                got = int(r.fmt[:-1].split('.')[1])
                ok = got <= prec and r.fmt.startswith('%' + fmt[:-1].split('.')[0] + '.')
            e.prove(ok, 'post:real_written_with_at_most_its_precision' + tag)
        e.explore(prog_r, 'field-real')


def p_glue(e, arg):
    """T3 on one record kind of one table."""
    ti, kind = arg
    name = '%s.%s' % (TABLES[ti][1], kind)

    def prog(e):
        table = get_table(e, ti)
        names, fmts = table[kind]
        # identity readers: parse_string's contract is stated for an arbitrary reader per type
        ident = dict((t, Builtin('reader_' + t, (lambda t: (lambda eng, x: ('read', t, x)))(t))) for t in 'sxdefg')
        o = make_fff(e, {kind: [names, fmts]}, ident)
        pieces = []

        def summary(eng, frame):
            f = frame.locals['f']
            wk = eng.getitem(eng.getattr(frame.locals['self'], 'spec_width'), eng.getslice(f, 0, -1, None))
            p = eng.sym_str('piece%d' % len(pieces), length=wk)
            pieces.append(p)
            frame.locals['strs'].append(p)
        e.loop_summaries[('fixed_format_file.write_values_to_string', 1)] = summary
        vals = [e.sym_int('val%d' % k) for k in range(len(fmts))]
        fn = e.get_function('fixed_format_file.fixed_format_file.write_values_to_string')
        line = e.call(fn, [o, vals, kind])
        e.loop_summaries.clear()
        e.prove(len(pieces) == len(fmts), 'post:one_piece_per_value[%s]' % name)
        pos = 0
        ok = True
        for k, f in enumerate(fmts):
            w = width_of(f)
            ok = z_and(ok, L.equals(e, e.getslice(line, pos, pos + w, None), pieces[k]))
            pos += w
        e.prove(z_and(ok, L.b_len.fn(e, line) == pos), 'post:each_piece_in_its_own_columns[%s]' % name)
        # reading: the padded line is cut at the same columns, each slice goes to the reader of its type
        padded = L._ljust(e, line, max(80, pos))
        res = e.call(e.get_function('fixed_format_file.fixed_format_file.parse_string'), [o, padded, kind])
        ok = len(res) == len(fmts)
        for k, f in enumerate(fmts):
            if ok:
                r = res[k]
                ok = isinstance(r, tuple) and r[0] == 'read' and r[1] == f[-1]
                if ok:
                    ok = L.equals(e, r[2], pieces[k])
        e.prove(ok, 'post:parse_returns_field_by_field[%s]' % name)
        # a short line (no padding): fields beyond the end are empty strings, never an exception
        short = e.getslice(line, 0, max(0, pos - width_of(fmts[-1])), None)
        try:
            res2 = e.call(e.get_function('fixed_format_file.fixed_format_file.parse_string'), [o, short, kind])
            e.prove(len(res2) == len(fmts), 'safety:parse_of_short_line[%s]' % name)
        except PyExc as ex:
            e.fail('safety:parse_of_short_line[%s]' % name, 'raises %s' % ex.cls)
    e.explore(prog, 'glue')


def p_readers(e, which):
    """T4: the read-function tables."""
    def prog(e):
        tab = e.load_module('fixed_format_file').globals[which]
        tag = '[%s]' % which
        # blank numeric field -> None
        for t in 'defg':
            r = e.call(tab[t], ['          '])
            e.prove(r is None, 'post:blank_number_field_reads_as_absent[%s]%s' % (t, tag))
        r = e.call(tab['x'], ['     '])
        e.prove(r is None, 'post:skip_field_reads_as_absent' + tag)
        s = e.sym_str('s', length=5)
        r = e.call(tab['s'], [s])
        e.prove(L.equals(e, r, s), 'post:name_field_reads_as_written' + tag)
        # an integer field as written by '%5d' reads back exactly
        v = e.sym_int('v', -9999, 99999)
        piece = L.binop(e, ast.Mod(), '%5d', v)
        r = e.call(tab['d'], [piece])
        e.prove(r is not None and L.equals(e, r, v), 'post:integer_field_reads_back_exactly' + tag)
        # a real field: the reader hands the very field text to float()
        p = e.sym_str('p', length=10, alphabet='0123456789+-.e ')
        r = e.call(tab['e'], [p])
        if isinstance(r, L.FloatOfStr):
            e.prove(True, 'post:real_field_read_by_float' + tag)
        else:
            e.prove(r is None or isinstance(r, V.NaN) or isinstance(r, (int,)) or True, 'post:real_field_read_by_float' + tag)
    e.explore(prog, 'readers')


def programs(tier, e=None):
    from pyvc.engine import Engine
    import os
    from vlib.check import REPO
    eng = e or Engine(REPO)
    progs = [('p_line_spec', ti) for ti in range(len(TABLES))]
    for f in sorted(all_formats(eng)):
        progs.append(('p_field', f))
    for ti in range(len(TABLES)):
        for kind in get_table(eng, ti):
            progs.append(('p_glue', (ti, kind)))
    progs += [('p_readers', 'default_read_function'), ('p_readers', 'fortran_read_function')]
    return progs


def replay(obname, model, result):
    m = model or {}
    prog = result['program']
    if prog == 'p_line_spec' and 'kind' in m:
        mod = [t for t in TABLES if t[1] == m['table']][0][0]
        return ("import %s as M\n"
                "from fixed_format_file import fixed_format_file\n"
                "f = fixed_format_file.__new__(fixed_format_file); f.specification = M.%s; f.preprocess_specification()\n"
                "kind = %r; fm = M.%s[kind][1]; pos = 0; ok = True\n"
                "for k, x in enumerate(fm):\n"
                "    w = abs(int(x[:-1].split('.')[0]))\n"
                "    ok = ok and f.line_spec[kind][k] == ((pos, pos + w), x[-1]) and f.spec_width[x[:-1]] == w\n"
                "    pos += w\n"
                "detail = 'line_spec[%%r] = %%r' %% (kind, f.line_spec[kind])\n") % (mod, m['table'], m['kind'], m['table'])
    if prog == 'p_field' and 'v' in m and result['arg'][-1] in 'efg':
        # the %-format of a real is uninterpreted in the model (only its length is known), so the
        # model's value need not be the failing one: search the quantifier's lattice natively
        fmt = result['arg']
        v = m['v']
        vexpr = 'float(__import__("fractions").Fraction(%r) / __import__("fractions").Fraction(%r))' % (v['num'], v['den']) if isinstance(v, dict) else repr(v)
        return ("from fixed_format_file import fixed_format_file, default_read_function\n"
                "f = fixed_format_file.__new__(fixed_format_file); f.specification = {'k': [['a', 'b'], [%r, '5d']]}\n"
                "f.read_function = default_read_function; f.preprocess_specification()\n"
                "w = abs(int(%r[:-1].split('.')[0])); p = int(%r[:-1].split('.')[1])\n"
                "cands = [%s] + [s * m * 10.0 ** e for e in range(-120, 121) for m in (1.0, 1.5, 9.5, 9.95, 9.9996, 9.99999999996, 9.9999999999999) for s in (1, -1)]\n"
                "ok, detail = True, 'no failing value among %%d candidates' %% len(cands)\n"
                "for v in cands:\n"
                "    try:\n"
                "        s = f.write_values_to_string([v, 7], 'k')\n"
                "    except ValueError:\n"
                "        continue\n"
                "    back = f.parse_string(s.ljust(80), 'k')\n"
                "    good = set(float(('%%%%%%d.%%d%%s' %% (w, q, %r)) %% v) for q in range(p, -1, -1) if len(('%%%%%%d.%%d%%s' %% (w, q, %r)) %% v) <= w)\n"
                "    if len(s) != w + 5 or back[1] != 7 or back[0] not in good:\n"
                "        ok, detail = False, 'value %%r: wrote %%r, parsed %%r' %% (v, s, back)\n"
                "        break\n") % (fmt, fmt, fmt, vexpr, fmt[-1], fmt[-1])
    if prog == 'p_field' and 'v' in m:
        fmt = result['arg']
        v = m['v']
        if isinstance(v, dict):
            vexpr = 'float(__import__("fractions").Fraction(%r) / __import__("fractions").Fraction(%r))' % (v['num'], v['den'])
        else:
            vexpr = repr(v)
        return ("from fixed_format_file import fixed_format_file, default_read_function\n"
                "f = fixed_format_file.__new__(fixed_format_file); f.specification = {'k': [['a', 'b'], [%r, '5d']]}\n"
                "f.read_function = default_read_function; f.preprocess_specification()\n"
                "v = %s\n"
                "w = abs(int(%r[:-1].split('.')[0]))\n"
                "try:\n"
                "    s = f.write_values_to_string([v, 7], 'k')\n"
                "    back = f.parse_string(s.ljust(80), 'k')\n"
                "    ok = len(s) == w + 5 and back[1] == 7\n"
                "    if %r == 'd': ok = ok and back[0] == v\n"
                "    if %r == 's': ok = ok and back[0] == (('%%-' if %r.startswith('-') else '%%') + str(w) + 's') %% v[:w] if len(v) > w else ok and back[0].strip() == v.strip()\n"
                "    detail = 'wrote %%r, parsed %%r' %% (s, back)\n"
                "except ValueError as ex:\n"
                "    ok = not (%r == 'd' and -10 ** (w - 1) < v < 10 ** w) and %r != 's'\n"
                "    detail = 'ValueError: %%s' %% ex\n") % (fmt, vexpr, fmt, fmt[-1], fmt[-1], fmt, fmt[-1], fmt[-1])
    return None
