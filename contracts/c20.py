"""C20 - flavour conversion and Waiwera export: contracts on the real t2data methods."""
import z3
from pyvc.engine import Obj, NVec, Builtin
from pyvc import library as L
from pyvc.values import PyExc, to_int, to_real, SymStr

FUNCS = ['t2data.t2data.convert_AUTOUGH2_parameters_to_TOUGH2', 't2data.t2data.convert_TOUGH2_parameters_to_AUTOUGH2',
         't2data.t2data.convert_AUTOUGH2_generators_to_TOUGH2', 't2data.t2data.convert_to_TOUGH2', 't2data.t2data.convert_to_AUTOUGH2',
         't2data.t2data.convert_short_to_history', 't2data.t2data.convert_history_to_short', 't2data.t2data.eos_json',
         't2data.t2data.delete_section', 't2data.t2data.insert_section']


def make_data(e, flavour):
    m = e.load_module('t2data').globals
    g = e.load_module('t2grids').globals
    d = Obj(m['t2data'])
    grid = Obj(g['t2grid'])
    e.call(e.get_function('t2grids.t2grid.empty'), [grid])
    rt = e.call(g['rocktype'], [])
    rt.fields['conductivity'] = e.sym_real('cond', 0)
    rt.fields['porosity'] = e.sym_real('poro', 0, 1)
    e.call(e.get_function('t2grids.t2grid.add_rocktype'), [grid, rt])
    opts = NVec([0] + [e.sym_int('mop%d' % k, 0, 9) for k in range(1, 25)])
    d.fields.update(grid=grid, parameter={'option': opts}, multi={}, lineq={}, solver={}, simulator='', filename='',
                    generatorlist=[], generator={}, short_output={}, history_block=[], history_connection=[], history_generator=[],
                    _sections=['ROCKS', 'PARAM', 'ELEME', 'CONNE'], type=flavour)
    return d, rt, opts


def p_to_tough2(e, mp):
    tag = '[MP]' if mp else '[TOUGH2]'
    def prog(e):
        d, rt, opts = make_data(e, 'AUTOUGH2')
        before = list(opts.items)
        cond0 = rt.fields['conductivity']
        d.fields['simulator'] = 'AUTOUGH2.2EW'
        d.fields['multi'] = {'num_components': 1, 'num_equations': 2, 'num_phases': 2, 'num_secondary_parameters': 6, 'eos': 'EW'}
        lt = e.sym_int('lineq_type', 0, 3)
        d.fields['lineq'] = {'type': lt, 'epsilon': None, 'max_iterations': None, 'gauss': None, 'num_orthog': None}
        d.fields['_sections'] = ['SIMUL', 'ROCKS', 'PARAM', 'LINEQ', 'MULTI', 'ELEME', 'CONNE', 'SHORT']
        blk = Obj(e.load_module('t2grids').globals['t2block'], name='  a 1')
        d.fields['short_output'] = {'frequency': 5, 'block': [blk]}
        e.call(e.get_function('t2data.t2data.convert_to_TOUGH2'), [d], {'warn': False, 'MP': mp})
        f = d.fields
        after = f['parameter']['option'].items
        e.prove(f['simulator'] == '' and 'SIMUL' not in f['_sections'], 'post:no_simulator_section' + tag)
        e.prove(f['lineq'] == {} and 'LINEQ' not in f['_sections'], 'post:no_linear_solver_section' + tag)
        e.prove('eos' not in f['multi'], 'post:no_eos_name' + tag)
        e.prove(f['short_output'] == {} and f['history_block'] == [blk], 'post:short_output_becomes_history' + tag)
        # MOP digits: 21 from the linear solver, 22..24 cleared, 10 / 12 value 2 cleared, the rest untouched
        want21 = z3.IntVal(0) if mp else z3.If(lt <= 1, 4, 5)
        e.prove(to_int(after[21]) == want21, 'post:MOP21_from_linear_solver' + tag)
        e.prove(z3.And(*[to_int(after[k]) == 0 for k in (22, 23, 24)]), 'post:MOP22_24_cleared' + tag)
        touched = {10, 12, 21, 22, 23, 24} | ({14, 17, 20} if mp else set())
        e.prove(z3.And(*[to_int(after[k]) == to_int(before[k]) for k in range(1, 25) if k not in touched]), 'frame:other_MOP_digits_untouched' + tag)
        e.prove(z3.And(to_int(after[10]) == z3.If(to_int(before[10]) == 2, 0, to_int(before[10])),
                       to_int(after[12]) == z3.If(to_int(before[12]) == 2, 0, to_int(before[12]))), 'post:MOP10_12_value_2_cleared' + tag)
        # documented conductivity rescaling exactly when MOP(10) was 2 (the MOP(23) branch needs the simulator string)
        c1 = to_real(rt.fields['conductivity'])
        scaled = to_real(cond0) * (1 - to_real(rt.fields['porosity']))
        e.prove(z3.If(to_int(before[10]) == 2, z3.Or(c1 == scaled, c1 == scaled * (1 - to_real(rt.fields['porosity']))), z3.Or(c1 == to_real(cond0), c1 == scaled)),
                'post:conductivity_rescaled_only_as_documented' + tag)
        if mp:
            e.prove(z3.And(*[to_int(after[k]) == 0 for k in (14, 17, 20)]), 'post:MP_MOPs_cleared' + tag)
    e.explore(prog, 'to_tough2')


def p_to_autough2(e, mp):
    tag = '[MP]' if mp else '[TOUGH2]'
    def prog(e):
        d, rt, opts = make_data(e, 'TOUGH2')
        before = list(opts.items)
        d.fields['multi'] = {'num_components': 1, 'num_equations': 2, 'num_phases': 2, 'num_secondary_parameters': 6}
        use_solver = e.sym_bool('has_solver')
        if e.branch(use_solver):
            d.fields['solver'] = {'type': e.sym_int('solver_type', 0, 9)}
            d.fields['_sections'].append('SOLVR')
        g = e.load_module('t2grids').globals
        blk = Obj(g['t2block'], name='  a 1')
        d.fields['history_block'] = [blk, 'zz 99']
        try:
            e.call(e.get_function('t2data.t2data.convert_to_AUTOUGH2'), [d], {'warn': False, 'MP': mp})
        except PyExc as ex:
            e.fail('safety:convert_to_AUTOUGH2' + tag, 'raises %s' % ex.cls)
            return
        f = d.fields
        after = f['parameter']['option'].items
        sim = L.norm_str(f['simulator'])
        e.prove(isinstance(sim, str) and sim.startswith('AUTOUGH2') and 'SIMUL' in f['_sections'], 'post:declares_AUTOUGH2' + tag)
        e.prove(f['solver'] == {} and 'LINEQ' in f['_sections'] and 'type' in f['lineq'], 'post:linear_solver_section_present' + tag)
        lt = f['lineq']['type']
        e.prove(z3.Or(to_int(lt) == 1, to_int(lt) == 2), 'post:lineq_type_is_1_or_2' + tag)
        e.prove(f['multi'].get('eos') == 'EW', 'post:eos_name_set' + tag)
        e.prove(z3.And(*[to_int(after[k]) == 0 for k in (21, 22, 23, 24)]), 'post:MOP21_24_cleared' + tag)
        touched = {12, 21, 22, 23, 24} | ({14, 17, 20} if mp else set())
        e.prove(z3.And(*[to_int(after[k]) == to_int(before[k]) for k in range(1, 25) if k not in touched]), 'frame:other_MOP_digits_untouched' + tag)
        e.prove(f['short_output'].get('block') == [blk] and f['history_block'] == [], 'post:history_objects_become_short_output_names_dropped' + tag)
    e.explore(prog, 'to_autough2')


ALLOWED = ['HEAT', 'WATE', 'AIR ', 'MASS', 'DELV']


def p_generators(e, _a=None):
    """Three generators with symbolic 4-character types: afterwards every remaining one has a
    type TOUGH2 has, CO2 became COM2, unsupported ones are gone from list and lookup, the
    others are untouched and still found under their names - including duplicated names."""
    def prog(e):
        d, rt, opts = make_data(e, 'AUTOUGH2')
        m = e.load_module('t2data').globals
        pool = ['MASS', 'HEAT', 'CO2 ', 'COM3', 'RECH', 'DELG', 'XXXX']
        names = [('  a 1', 'gen 1'), ('  b 1', 'gen 2'), ('  a 1', 'gen 1')]   # third duplicates the first
        gens, kinds = [], []
        for k, (b, n) in enumerate(names):
            c = e.sym_int('type%d' % k, 0, len(pool) - 1)
            for i, t in enumerate(pool):
                if e.branch(c == i):
                    gens.append(e.call(m['t2generator'], [], {'name': n, 'block': b, 'type': t, 'gx': e.sym_real('gx%d' % k)}))
                    kinds.append(t)
                    break
        for g in gens:
            e.call(e.get_function('t2data.t2data.add_generator'), [d, g])
        e.call(e.get_function('t2data.t2data.convert_AUTOUGH2_generators_to_TOUGH2'), [d], {'warn': False})
        def ok_type(t): return t in ALLOWED or t.startswith('COM')
        keep = [g for g, t in zip(gens, kinds) if ok_type(t) or t == 'CO2 ']
        gl = d.fields['generatorlist']
        e.prove(len(gl) == len(keep) and all(a is b for a, b in zip(gl, keep)), 'post:supported_generators_kept_in_order_unsupported_deleted')
        e.prove(all(ok_type(g.fields['type']) for g in gl), 'post:every_remaining_type_exists_in_TOUGH2')
        e.prove(all(g.fields['type'] == ('COM2' if t == 'CO2 ' else t) for g, t in zip(gens, kinds) if g in gl), 'post:CO2_converted_others_unchanged')
        look = d.fields['generator']
        want_keys = set((g.fields['block'], g.fields['name']) for g in gl)
        e.prove(set(look) == want_keys and all(any(look[k] is g for g in gl) for k in look), 'post:lookup_agrees_with_list')
        last = {}
        for g in gl:
            last[(g.fields['block'], g.fields['name'])] = g
        e.prove(all(look[k] is last[k] for k in look), 'post:lookup_names_the_last_surviving_generator_of_that_name')
    e.explore(prog, 'generators')


def p_eos_json(e, how):
    tag = '[%s]' % how
    supported = {'W': 'w', 'EW': 'we', 'EWC': 'wce', 'EWAV': 'wae', 'EWT': 'we', 'EWTD': 'we'}
    def prog(e):
        d, rt, opts = make_data(e, 'AUTOUGH2')
        d.fields['parameter']['default_incons'] = [101325, 20]
        d.fields['diffusion'] = [[-1, -1]]
        e.opaque['np.all'] = None
        ok = True
        for name, js in supported.items():
            if name == 'EWTD':
                continue     # needs numpy allclose on the diffusion array: bounded
            if how == 'explicit':
                arg = name; d.fields['multi'] = {}; d.fields['simulator'] = ''
            elif how == 'multi':
                arg = None; d.fields['multi'] = {'num_components': 1, 'eos': name + ' '}; d.fields['simulator'] = 'AUTOUGH2.2'
            elif how == 'simulator':
                arg = None; d.fields['multi'] = {}; d.fields['simulator'] = 'AUTOUGH2.2' + name
            else:   # simulator string, MULTI present without an EOS name
                arg = None; d.fields['multi'] = {'num_components': 1, 'eos': ''}; d.fields['simulator'] = 'AUTOUGH2.2' + name
            try:
                jd, tr = e.call(e.get_function('t2data.t2data.eos_json'), [d, arg])
                ok = ok and jd.get('eos', {}).get('name') == js
            except PyExc as ex:
                ok = False
        e.prove(ok, 'post:eos_recognised' + tag)
        d.fields['multi'] = {}; d.fields['simulator'] = 'AUTOUGH2.2'
        try:
            e.call(e.get_function('t2data.t2data.eos_json'), [d, None])
            e.prove(False, 'raises:eos_not_detected_is_an_error' + tag)
        except PyExc as ex:
            e.prove(True, 'raises:eos_not_detected_is_an_error' + tag)
    e.explore(prog, 'eos_json')


PROGRAMS = [('p_to_tough2', False), ('p_to_tough2', True), ('p_to_autough2', False), ('p_to_autough2', True), ('p_generators', None)] + \
           [('p_eos_json', h) for h in ('explicit', 'multi', 'simulator', 'simulator+empty-multi')]


def replay(obname, model, result):
    m = model or {}
    prog = result['program']
    if prog in ('p_to_tough2', 'p_to_autough2') and 'mop1' in m:
        mops = [0] + [int(m.get('mop%d' % k, 0)) for k in range(1, 25)]
        return ("import numpy as np\nfrom t2data import *\n"
                "mops = %r; mp = %r; to_t2 = %r\n"
                "d = t2data(); d.parameter['option'] = np.array(mops, np.int8); before = list(d.parameter['option'])\n"
                "d.grid.add_rocktype(rocktype())\n"
                "ok, detail = True, ''\n"
                "try:\n"
                "    if to_t2:\n"
                "        d.simulator = 'AUTOUGH2.2EW'; d.multi = {'eos': 'EW', 'num_components': 1}; d.lineq = {'type': %d}; d.insert_section('SIMUL'); d.insert_section('LINEQ')\n"
                "        d.convert_to_TOUGH2(warn=False, MP=mp); a = list(d.parameter['option'])\n"
                "        ok = d.simulator == '' and d.lineq == {} and 'eos' not in d.multi and 'SIMUL' not in d._sections and 'LINEQ' not in d._sections and a[22] == a[23] == a[24] == 0\n"
                "        touched = {10, 12, 21, 22, 23, 24} | ({14, 17, 20} if mp else set())\n"
                "    else:\n"
                "        %s\n"
                "        d.convert_to_AUTOUGH2(warn=False, MP=mp); a = list(d.parameter['option'])\n"
                "        ok = d.simulator.startswith('AUTOUGH2') and d.solver == {} and d.lineq.get('type') in (1, 2) and a[21] == a[22] == a[23] == a[24] == 0\n"
                "        touched = {12, 21, 22, 23, 24} | ({14, 17, 20} if mp else set())\n"
                "    ok = ok and all(a[k] == before[k] for k in range(1, 25) if k not in touched)\n"
                "    detail = 'MOPs %%r -> %%r' %% (before, a)\n"
                "except Exception as e:\n"
                "    ok, detail = False, '%%s: %%s' %% (type(e).__name__, e)\n") % (
                    mops, result['arg'], prog == 'p_to_tough2', int(m.get('lineq_type', 0)),
                    ("d.solver = {'type': %d}" % int(m['solver_type'])) if 'solver_type' in m and m.get('has_solver') else 'pass')
    if prog == 'p_generators' and 'type0' in m:
        pool = ['MASS', 'HEAT', 'CO2 ', 'COM3', 'RECH', 'DELG', 'XXXX']
        ts = [pool[int(m['type%d' % k])] for k in range(3)]
        return ("from t2data import *\n"
                "d = t2data(); ts = %r; names = [('  a 1', 'gen 1'), ('  b 1', 'gen 2'), ('  a 1', 'gen 1')]\n"
                "gens = [t2generator(name=n, block=b, type=t, gx=float(k)) for k, ((b, n), t) in enumerate(zip(names, ts))]\n"
                "for g in gens: d.add_generator(g)\n"
                "d.convert_AUTOUGH2_generators_to_TOUGH2(warn=False)\n"
                "okt = lambda t: t in ['HEAT', 'WATE', 'AIR ', 'MASS', 'DELV'] or t.startswith('COM')\n"
                "keep = [g for g, t in zip(gens, ts) if okt(t) or t == 'CO2 ']\n"
                "last = {}\n"
                "for g in keep: last[(g.block, g.name)] = g\n"
                "ok = d.generatorlist == keep and all(okt(g.type) for g in d.generatorlist) and set(d.generator) == set(last) and all(d.generator[k] is last[k] for k in last)\n"
                "detail = 'types %%r -> list %%r lookup %%r' %% (ts, [(g.block, g.name, g.type) for g in d.generatorlist], dict((k, v.type) for k, v in d.generator.items()))\n") % (ts,)
    if prog == 'p_eos_json':
        return ("from t2data import *\n"
                "sup = {'W': 'w', 'EW': 'we', 'EWC': 'wce', 'EWAV': 'wae', 'EWT': 'we'}; how = %r\n"
                "ok, detail = True, ''\n"
                "for name, js in sup.items():\n"
                "    d = t2data(); d.parameter['default_incons'] = [101325., 20.]\n"
                "    if how == 'explicit': arg = name\n"
                "    elif how == 'multi': arg = None; d.multi = {'num_components': 1, 'eos': name + ' '}; d.simulator = 'AUTOUGH2.2'\n"
                "    elif how == 'simulator': arg = None; d.simulator = 'AUTOUGH2.2' + name\n"
                "    else: arg = None; d.multi = {'num_components': 1, 'eos': ''}; d.simulator = 'AUTOUGH2.2' + name\n"
                "    try: r = d.eos_json(arg)[0]['eos']['name']\n"
                "    except Exception as e: r = '%%s: %%s' %% (type(e).__name__, e)\n"
                "    if r != js: ok, detail = False, 'EOS %%r given via %%s: export says %%r' %% (name, how, r)\n") % (result['arg'],)
    return None
