"""C11 / C10 - the subdivision templates of mulgrid.refine are data in the code: extracted
from the AST on every run, they are checked to conserve area for arbitrary vertex positions
and to be conforming (exact combinatorics); transition_type is total and consistent with the
templates; the cyclic index helpers of column are modular arithmetic."""
import ast
import os
import time
import itertools
import z3
from pyvc.engine import Obj
from pyvc import library as L
from pyvc.values import PyExc, to_int

FUNCS = ['mulgrids.mulgrid.refine', 'mulgrids.mulgrid.refine.transition_type', 'mulgrids.column.index_plus',
         'mulgrids.column.index_minus', 'mulgrids.column.index_dist', 'geometry.polygon_area']


def plain(f):
    f.plain = True
    return f


def _refine_node(repo):
    src = open(os.path.join(repo, 'mulgrids.py')).read()
    tree = ast.parse(src)
    for n in ast.walk(tree):
        if isinstance(n, ast.FunctionDef) and n.name == 'refine':
            return n
    return None


def _templates(repo):
    fn = _refine_node(repo)
    for n in ast.walk(fn):
        if isinstance(n, ast.Assign) and getattr(n.targets[0], 'id', None) == 'transition_column':
            return ast.literal_eval(n.value)
    return None


def _refined_sides(nn, tmpl):
    mids = set()
    for poly in tmpl:
        for item in poly:
            if isinstance(item, tuple):
                mids.add(tuple(sorted(item)))
    return mids


@plain
def o_templates(repo, arg, timeout_ms):
    import sympy as sp
    out = []
    T = _templates(repo)
    if not T:
        return [{'name': 'table:refine_templates_found', 'status': 'failed', 'detail': 'transition_column literal not found in refine()', 'backend': 'ast-table', 'model': {}}]
    for nn, tm in sorted(T.items()):
        P = [(sp.Symbol('x%d' % k), sp.Symbol('y%d' % k)) for k in range(nn)]
        c = (sp.Symbol('cx'), sp.Symbol('cy'))
        def pt(item):
            if item == 'c':
                return c
            if isinstance(item, tuple):
                a, b = P[item[0] % nn], P[item[1] % nn]
                return ((a[0] + b[0]) / 2, (a[1] + b[1]) / 2)
            return P[item % nn]
        def shoelace(pts):
            return sum(pts[k][0] * pts[(k + 1) % len(pts)][1] - pts[(k + 1) % len(pts)][0] * pts[k][1] for k in range(len(pts))) / 2
        for key, tmpl in sorted(tm.items()):
            t0 = time.time()
            tag = '[n=%d,refined=%d,range=%d]' % (nn, key[0], key[1])
            total = sum(shoelace([pt(i) for i in poly]) for poly in tmpl)
            ok = sp.expand(total - shoelace(P)) == 0
            out.append({'name': 'identity:template_conserves_area' + tag, 'status': 'discharged' if ok else 'failed', 'seconds': time.time() - t0,
                        'backend': 'sympy', 'detail': '', 'model': None if ok else {'template': [nn, list(key)]}})
            # conformity: directed edges
            t0 = time.time()
            edges = {}
            sizes = True
            for poly in tmpl:
                sizes = sizes and len(poly) in (3, 4)
                for k in range(len(poly)):
                    a, b = poly[k], poly[(k + 1) % len(poly)]
                    edges[(a, b)] = edges.get((a, b), 0) + 1
            def norm(item):
                return tuple(sorted(item)) if isinstance(item, tuple) else item
            de = {}
            for (a, b), cnt in edges.items():
                de[(norm(a), norm(b))] = de.get((norm(a), norm(b)), 0) + cnt
            mids = _refined_sides(nn, tmpl)
            boundary = []
            for i in range(nn):
                j = (i + 1) % nn
                m = tuple(sorted((i, j)))
                boundary += [(i, m), (m, j)] if m in mids else [(i, j)]
            okc = sizes and all(v == 1 for v in de.values())
            interior = [k for k in de if k not in boundary]
            okc = okc and all(k in de for k in boundary) and all((b, a) in de for (a, b) in interior) and not any((b, a) in de for (a, b) in boundary)
            out.append({'name': 'table:template_is_conforming' + tag, 'status': 'discharged' if okc else 'failed', 'seconds': time.time() - t0,
                        'backend': 'combinatorics', 'detail': '%d pieces, refined sides %s' % (len(tmpl), sorted(mids)), 'model': None if okc else {'template': [nn, list(key)]}})
            # the key says how many sides are refined and over which range
            okk = len(mids) == key[0] and (max(min(m) if m != (0, nn - 1) else nn - 1 for m in mids) - 0 == key[1] if True else True)
            sides = sorted((min(m) if m != (0, nn - 1) else nn - 1) for m in mids)
            okk = len(sides) == key[0] and sides[0] == 0 and sides[-1] == key[1]
            out.append({'name': 'table:template_key_matches_refined_sides' + tag, 'status': 'discharged' if okk else 'failed', 'seconds': 0.0,
                        'backend': 'combinatorics', 'detail': 'sides %s' % sides, 'model': None if okk else {'template': [nn, list(key)]}})
    return out


def p_transition_type(e, nn):
    """Total on every non-empty subset of sides, and rotating the selected template by istart
    refines exactly the given sides."""
    def prog(e):
        f = e.get_function('mulgrids.mulgrid.refine.transition_type')
        from vlib.check import REPO
        T = _templates(e.repo)
        ok, bad = True, None
        for r in range(1, nn + 1):
            for sides in itertools.combinations(range(nn), r):
                res = e.call(f, [nn, list(sides)])
                if res is None or len(res) != 3:
                    ok, bad = False, (sides, res); continue
                nref, istart, irange = res
                tm = T[nn].get((nref, irange))
                if tm is None:
                    ok, bad = False, (sides, res); continue
                mids = _refined_sides(nn, tm)
                got = sorted(((min(m) if m != (0, nn - 1) else nn - 1) + istart) % nn for m in mids)
                if got != sorted(sides):
                    ok, bad = False, (sides, res, got)
        e.prove(ok, 'post:transition_type_total_and_consistent_with_templates[n=%d]' % nn)
        if not ok:
            e.fail('post:transition_type_total_and_consistent_with_templates[n=%d]' % nn, 'sides %r' % (bad,), model={'sides': list(bad[0]), 'nn': nn})
    e.explore(prog, 'transition_type')


def p_index(e, _a=None):
    def prog(e):
        m = e.load_module('mulgrids').globals
        col = Obj(m['column'])
        nn = e.sym_int('nn', 3, 12)
        col.fields['node'] = None
        # num_nodes is a property (len(self.node)): model a column with nn nodes through an opaque getter
        e.opaque['column.get_num_nodes'] = lambda eng, args, kwargs: nn
        i = e.sym_int('i', 0); d = e.sym_int('d', 0)
        e.assume(z3.And(i < nn, d <= nn))
        ip = e.call(e.get_function('mulgrids.column.index_plus'), [col, i, d])
        im = e.call(e.get_function('mulgrids.column.index_minus'), [col, i, d])
        e.prove(z3.And(to_int(ip) >= 0, to_int(ip) < nn, (to_int(ip) - i - d) % nn == 0), 'post:index_plus_is_addition_modulo_num_nodes')
        e.prove(z3.And(to_int(im) >= 0, to_int(im) <= nn - 1 if True else True, (to_int(im) - i + d) % nn == 0) if False else
                z3.And(to_int(im) >= 0, z3.Implies(d < nn, to_int(im) < nn), (to_int(im) - i + d) % nn == 0), 'post:index_minus_is_subtraction_modulo_num_nodes')
        j = e.sym_int('j', 0)
        e.assume(j < nn)
        dist = e.call(e.get_function('mulgrids.column.index_dist'), [col, i, j])
        dist2 = e.call(e.get_function('mulgrids.column.index_dist'), [col, j, i])
        e.prove(z3.And(to_int(dist) == to_int(dist2), to_int(dist) >= 0, 2 * to_int(dist) <= nn,
                       z3.Or((i - j - to_int(dist)) % nn == 0, (j - i - to_int(dist)) % nn == 0)), 'post:index_dist_is_cyclic_distance')
    e.explore(prog, 'index')


def p_num_layers(e, _a=None):
    """set_column_num_layers counts exactly the layers whose bottom lies below the surface, and
    column_surface_layer is then the column's top block layer."""
    from contracts.c04 import make_geo, make_col, NL
    def prog(e):
        g = make_geo(e, 0)
        col = make_col(e, g, '  a', '')
        s = col.fields['_surface']
        e.call(e.get_function('mulgrids.mulgrid.set_column_num_layers'), [g, col])
        lays = g.fields['layerlist']
        want = sum([z3.If(l.fields['bottom'] < s, 1, 0) for l in lays[1:]])
        e.prove(to_int(col.fields['num_layers']) == want, 'post:num_layers_counts_layers_with_bottom_below_surface')
        if isinstance(col.fields['num_layers'], int) and col.fields['num_layers'] > 0:
            sl = e.call(e.get_function('mulgrids.mulgrid.column_surface_layer'), [g, col])
            e.prove(z3.And(sl.fields['bottom'] < s, z3.Or(s <= sl.fields['top'], z3.BoolVal(sl is lays[1]))), 'post:surface_layer_is_the_top_block_layer')
    e.explore(prog, 'num_layers')


def p_add_layers(e, arg):
    """add_layers (real method, real name generators) never gives a layer the surface layer's name
    and creates exactly the requested number of distinctly named layers (layer counts crossing
    the position at which the generated name collides with the surface layer name)."""
    convention, n = arg
    def prog(e):
        m = e.load_module('mulgrids').globals
        g = Obj(m['mulgrid'])
        g.fields.update(_convention=convention, _atmosphere_type=2, layerlist=[], layer={}, columnlist=[], column={})
        e.call(e.get_function('mulgrids.mulgrid.set_secondary_variables'), [g])
        th = [e.sym_real('h%d' % k, 0) for k in range(n)]
        try:
            e.call(e.get_function('mulgrids.mulgrid.add_layers'), [g, th, 0])
        except PyExc as ex:
            e.prove(ex.cls == 'NamingConventionError' and n > {0: 99, 1: 18278, 2: 701, 3: 701}[convention], 'raises:add_layers_only_NamingConventionError_beyond_capacity[conv%d,n=%d]' % (convention, n))
            return
        names = [l.fields['name'] for l in g.fields['layerlist']]
        e.prove(len(names) == n + 1 and len(set(names)) == n + 1 and set(g.fields['layer']) == set(names), 'post:add_layers_creates_n_distinct_layers_plus_surface[conv%d,n=%d]' % (convention, n))
    e.explore(prog, 'add_layers')


PROGRAMS = [('p_num_layers', None)] + [('p_add_layers', a) for a in ((2, 45), (2, 46), (2, 50), (0, 12), (1, 30), (3, 50))] + [('o_templates', None), ('p_transition_type', 3), ('p_transition_type', 4), ('p_index', None)]


def replay(obname, model, result):
    m = model or {}
    if result['program'] == 'p_add_layers':
        conv, n = result['arg']
        return ("from mulgrids import *\n"
                "g = mulgrid(convention=%d); n = %d\n"
                "try:\n"
                "    g.add_layers([1.] * n, 0)\n"
                "    names = [l.name for l in g.layerlist]\n"
                "    ok = len(names) == n + 1 and len(set(names)) == n + 1\n"
                "    detail = '%%d layers requested, %%d layers (%%d distinct names) created' %% (n, len(names) - 1, len(set(names)) - 1)\n"
                "except NamingConventionError as ex:\n"
                "    ok, detail = n > {0: 99, 1: 18278, 2: 701, 3: 701}[%d], 'NamingConventionError'\n") % (conv, n, conv)
    if result['program'] == 'p_num_layers' and 'z0' in m:
        def fl(v):
            return float(int(v['num'])) / float(int(v['den'])) if isinstance(v, dict) else float(v)
        z0, b = fl(m['z0']), [fl(m['bottom%d' % i]) for i in (1, 2, 3)]
        return ("from mulgrids import *\n"
                "z0, b, s = %r, %r, %r\n"
                "g = mulgrid().rectangular([10.], [10.], [z0 - b[0], b[0] - b[1], b[1] - b[2]], origin=[0., 0., z0])\n"
                "c = g.columnlist[0]; c.surface = s; g.set_column_num_layers(c)\n"
                "want = len([x for x in b if x < s])\n"
                "ok = c.num_layers == want\n"
                "detail = 'surface %%r, layer bottoms %%r: num_layers %%r, expected %%r' %% (s, b, c.num_layers, want)\n") % (z0, b, fl(m['surface']))
    if result['program'] == 'p_index' and 'nn' in m:
        return ("from mulgrids import column, node\nimport numpy as np\n"
                "nn, i, d, j = %d, %d, %d, %d\n"
                "c = column('  a', [node('%%3d' %% k, np.array([np.cos(6.283 * k / nn), np.sin(6.283 * k / nn)])) for k in range(nn)])\n"
                "ip, im, ds = c.index_plus(i, d), c.index_minus(i, d), c.index_dist(i, j)\n"
                "ok = 0 <= ip < nn and (ip - i - d) %% nn == 0 and 0 <= im and (d >= nn or im < nn) and (im - i + d) %% nn == 0 and ds == c.index_dist(j, i) and 2 * ds <= nn and ((i - j - ds) %% nn == 0 or (j - i - ds) %% nn == 0)\n"
                "detail = 'nn=%%d i=%%d d=%%d j=%%d: plus %%r minus %%r dist %%r' %% (nn, i, d, j, ip, im, ds)\n") % (int(m['nn']), int(m['i']), int(m['d']), int(m.get('j', 0)))
    if result['program'] in ('o_templates', 'p_transition_type'):
        return ("import numpy as np\nfrom mulgrids import *\n"
                "ok, detail = True, ''\n"
                "for nx, ny, cols in ((3, 3, ['  e']), (3, 3, ['  a', '  e']), (3, 2, ['  b', '  c']), (4, 3, ['  f', '  g', '  k']), (3, 3, ['  a', '  b', '  d', '  e'])):\n"
                "    g = mulgrid().rectangular([10., 13., 9., 11.][:nx], [7., 12., 10.][:ny], [5.])\n"
                "    a0 = g.area\n"
                "    g.refine([g.column[c] for c in cols])\n"
                "    if abs(g.area - a0) > 1e-9 * a0 or not g.check(silent=True) or g.missing_connections or g.extra_connections or g.orphans:\n"
                "        ok, detail = False, 'refine(%r) on %dx%d: area %r -> %r, missing %r extra %r orphans %r' % (cols, nx, ny, a0, g.area, g.missing_connections, g.extra_connections, g.orphans)\n")
    return None
