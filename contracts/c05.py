"""C05 - contracts on the leaves the listing tables stand on (real source of t2listing.py)."""
import z3
from pyvc.engine import Obj, NVec, Builtin
from pyvc import library as L
from pyvc.values import PyExc, to_real, SymStr

FUNCS = ['t2listing.listingtable.__init__', 't2listing.listingtable.__getitem__', 't2listing.listingtable.__setitem__',
         't2listing.listingtable.key_from_line', 't2listing.t2listing.read_table_line_TOUGH2',
         't2listing.t2listing.read_table_line_AUTOUGH2', 't2listing.t2listing.table_expected_floats']


def p_addressing(e, multi):
    """Row-name, row-index and column-name addressing agree (rows pairwise distinct, columns
    pairwise distinct - what the table set-up delivers); a connection named in reverse gives
    the negated row under the reversed key iff reverse keys are allowed."""
    tag = '[connection]' if multi else '[element]'
    def prog(e):
        m = e.load_module('t2listing').globals
        rows = [('  a 1', '  b 1'), ('  b 1', '  c 1'), ('  c 1', 'ATM 0')] if multi else ['  a 1', '  b 1', '  c 1']
        cols = ['P', 'T', 'SG']
        tab = e.call(m['listingtable'], [cols, rows], {'num_keys': 2 if multi else 1, 'allow_reverse_keys': multi})
        vals = [[e.sym_real('v%d%d' % (i, j)) for j in range(3)] for i in range(3)]
        # filled the way read_table does: by key
        for i, r in enumerate(rows):
            e.call(e.get_function('t2listing.listingtable.__setitem__'), [tab, r, list(vals[i])])
        gi = e.get_function('t2listing.listingtable.__getitem__')
        for i, r in enumerate(rows):
            byidx = e.call(gi, [tab, i])
            byname = e.call(gi, [tab, r])
            e.prove(byidx['key'] == r, 'post:row_index_gives_printed_key' + tag)
            e.prove(L.equals(e, byidx, byname) is True, 'post:row_name_and_row_index_agree' + tag)
            for j, c in enumerate(cols):
                col = e.call(gi, [tab, c])
                e.prove(L.equals(e, col.items[i], byidx[c]) is True and L.equals(e, byidx[c], vals[i][j]) is True,
                        'post:column_name_and_row_addressing_agree' + tag)
        if multi:
            rv = e.call(gi, [tab, ('  b 1', '  a 1')])
            ok = rv is not None and rv['key'] == ('  b 1', '  a 1') and all(L.equals(e, rv[c], -vals[0][j]) is True for j, c in enumerate(cols))
            e.prove(ok, 'post:reversed_connection_name_gives_negated_row' + tag)
            tab.fields['allow_reverse_keys'] = False
            e.prove(e.call(gi, [tab, ('  b 1', '  a 1')]) is None, 'post:no_reverse_lookup_unless_allowed' + tag)
        # by integer index store
        e.call(e.get_function('t2listing.listingtable.__setitem__'), [tab, 1, [7, 8, 9]])
        r1 = e.call(gi, [tab, 1])
        e.prove([r1[c] for c in cols] == [7, 8, 9] and L.equals(e, e.call(gi, [tab, 0])['P'], vals[0][0]) is True, 'post:setitem_by_index_touches_only_that_row' + tag)
    e.explore(prog, 'addressing')


def p_read_table_line(e, _a=None):
    """read_table_line_TOUGH2: cell i is fortran_float of exactly the columns
    [values[i], values[i+1]) of the line; missing trailing cells are 0.0; never raises."""
    def prog(e):
        m = e.load_module('t2listing')
        calls = []
        def ff(eng, args, kwargs):
            calls.append(args[0])
            return z3.Real('ff%d' % (len(calls) - 1))
        e.opaque['fortran_float'] = ff
        line = e.sym_str('line', maxlen=36)
        fmt = {'key': [1], 'index': 6, 'values': [12, 24, 30, 36]}
        me = Obj(m.globals['t2listing'])
        res = e.call(e.get_function('t2listing.t2listing.read_table_line_TOUGH2'), [me, line, 5, fmt])
        e.prove(len(res) == 5 and len(calls) == 3, 'post:one_cell_per_column')
        ok = True
        for i in range(3):
            want = e.getslice(line, fmt['values'][i], fmt['values'][i + 1], None)
            ok = L.z_and(ok, L.equals(e, calls[i], want), L.equals(e, res[i], z3.Real('ff%d' % i)))
        e.prove(ok, 'post:cell_is_fortran_float_of_its_own_columns')
        e.prove(L.equals(e, res[3], 0) is True and L.equals(e, res[4], 0) is True, 'post:blank_trailing_cells_read_as_zero')
    e.explore(prog, 'read_table_line')


def p_key_from_line(e, _a=None):
    def prog(e):
        m = e.load_module('t2listing').globals
        tab = e.call(m['listingtable'], [['P'], ['  a 1']], {'row_format': {'key': [1, 8], 'index': 13, 'values': [18, 30]}, 'num_keys': 2})
        line = e.sym_str('line', length=30)
        key = e.call(e.get_function('t2listing.listingtable.key_from_line'), [tab, line])
        fix = e.get_function('mulgrids.fix_blockname')
        want = (e.call(fix, [e.getslice(line, 1, 6, None)]), e.call(fix, [e.getslice(line, 8, 13, None)]))
        e.prove(isinstance(key, tuple) and len(key) == 2 and L.z_and(L.equals(e, key[0], want[0]), L.equals(e, key[1], want[1])),
                'post:key_is_the_printed_names_with_the_blank_quirk_repaired')
    e.explore(prog, 'key_from_line')


PROGRAMS = [('p_addressing', False), ('p_addressing', True), ('p_read_table_line', None), ('p_key_from_line', None)]


def replay(obname, model, result):
    if result['program'] == 'p_addressing':
        return ("import numpy as np\nfrom t2listing import listingtable\n"
                "ok, detail = True, ''\n"
                "for rows, multi in ((['  a 1', '  b 1', '  c 1'], False), ([('  a 1', '  b 1'), ('  b 1', '  c 1'), ('  c 1', 'ATM 0')], True)):\n"
                "    cols = ['P', 'T', 'SG']\n"
                "    tab = listingtable(cols, rows, num_keys=2 if multi else 1, allow_reverse_keys=multi)\n"
                "    vals = np.arange(1., 10.).reshape(3, 3)\n"
                "    for i, r in enumerate(rows): tab[r] = vals[i]\n"
                "    for i, r in enumerate(rows):\n"
                "        if tab[i]['key'] != r or tab[i] != tab[r] or any(tab[c][i] != tab[i][c] or tab[i][c] != vals[i][j] for j, c in enumerate(cols)):\n"
                "            ok, detail = False, 'row %r: by index %r, by name %r' % (r, tab[i], tab[r])\n"
                "    if multi:\n"
                "        rv = tab[('  b 1', '  a 1')]\n"
                "        if rv is None or rv['key'] != ('  b 1', '  a 1') or any(rv[c] != -vals[0][j] for j, c in enumerate(cols)):\n"
                "            ok, detail = False, 'reversed key gives %r' % (rv,)\n")
    if result['program'] == 'p_read_table_line':
        return ("from t2listing import t2listing\nfrom fixed_format_file import fortran_float\n"
                "me = t2listing.__new__(t2listing)\n"
                "line = ' a  1     1 0.10130E+06 0.200 0.300E+01'\n"
                "fmt = {'key': [1], 'index': 6, 'values': [12, 24, 30, 36]}\n"
                "r = me.read_table_line_TOUGH2(line, 5, fmt)\n"
                "want = [fortran_float(line[12:24]), fortran_float(line[24:30]), fortran_float(line[30:36]), 0.0, 0.0]\n"
                "ok = list(r) == want\n"
                "detail = 'read %r, expected %r' % (r, want)\n")
    return None
