"""Native replay (CPython, real classes) of the C10 / C11 edit obligations: the same operation on the same
rectangular geometry with the solver's values, the same clause group of the invariant evaluated on floats."""
import numpy as np
from contracts.c04_native import build, _val


def shoelace(nodes):
    s = 0.
    for k in range(len(nodes)):
        (x0, y0), (x1, y1) = nodes[k].pos, nodes[(k + 1) % len(nodes)].pos
        s += x0 * y1 - x1 * y0
    return s / 2


def wf(geo, valid_mesh=True, domain=None):
    G = ('lookups_and_lists_agree', 'nodes_know_their_columns', 'columns_know_their_connections_and_neighbours', 'columns_counter_clockwise_with_their_area',
         'layer_count_matches_surface', 'connection_nodes_are_the_shared_edge', 'no_missing_or_extra_connections_no_orphan_nodes', 'name_lists_are_a_fresh_recomputation', 'no_node_inside_another_columns_edge')
    out = dict((g, []) for g in G)
    def same(lst, dct, key, what):
        names = [key(o) for o in lst]
        if len(set(names)) != len(names): out[G[0]].append('%s names not unique %r' % (what, names))
        if set(dct.keys()) != set(names) or any(dct.get(key(o)) is not o for o in lst): out[G[0]].append('%s lookup and list disagree: %r vs %r' % (what, names, sorted(dct.keys(), key=str)))
    same(geo.nodelist, geo.node, lambda o: o.name, 'node'); same(geo.columnlist, geo.column, lambda o: o.name, 'column')
    same(geo.layerlist, geo.layer, lambda o: o.name, 'layer'); same(geo.welllist, geo.well, lambda o: o.name, 'well')
    same(geo.connectionlist, geo.connection, lambda o: tuple(c.name for c in o.column), 'connection')
    ids = lambda xs: set(id(x) for x in xs)
    for n in geo.nodelist:
        users = [c for c in geo.columnlist if any(m is n for m in c.node)]
        if ids(n.column) != ids(users): out[G[1]].append('node %r knows %r, used by %r' % (n.name, sorted(c.name for c in n.column), [c.name for c in users]))
        if valid_mesh and not users: out[G[6]].append('orphan node %r' % n.name)
    for c in geo.columnlist:
        mine = [k for k in geo.connectionlist if any(x is c for x in k.column)]
        if ids(c.connection) != ids(mine): out[G[2]].append('column %r knows %d connections, %d mention it' % (c.name, len(c.connection), len(mine)))
        nb = [x for k in mine for x in k.column if x is not c]
        if ids(c.neighbour) != ids(nb): out[G[2]].append('column %r neighbours %r, connected to %r' % (c.name, sorted(x.name for x in c.neighbour), [x.name for x in nb]))
        a = shoelace(c.node)
        if not (a > 0 and abs(a - c.area) <= 1e-9 * max(1., abs(a))): out[G[3]].append('column %r stored area %r, shoelace %r' % (c.name, c.area, a))
        cnt = len([l for l in geo.layerlist[1:] if l.bottom < c.surface])
        if c.num_layers != cnt: out[G[4]].append('column %r num_layers %r, %d layers below its surface' % (c.name, c.num_layers, cnt))
    for k in geo.connectionlist:
        a, b = k.column
        shared = [n for n in a.node if any(n is m for m in b.node)]
        if ids(k.node) != ids(shared) or len(shared) != 2: out[G[5]].append('connection %r nodes %r, shared edge %r' % (tuple(c.name for c in k.column), [n.name for n in k.node], [n.name for n in shared]))
    if valid_mesh:
        cols = geo.columnlist
        for i, a in enumerate(cols):
            for b in cols[i + 1:]:
                shared = [n for n in a.node if any(n is m for m in b.node)]
                joined = any(ids(k.column) == ids([a, b]) for k in geo.connectionlist)
                if (len(shared) >= 2) != joined: out[G[6]].append('columns %r and %r share %d nodes, %sconnected' % (a.name, b.name, len(shared), '' if joined else 'not '))
    if domain is not None:
        xa, xb, ya, yb = domain
        edges = {}
        for c in geo.columnlist:
            for k in range(len(c.node)):
                edges.setdefault(frozenset((id(c.node[k]), id(c.node[(k + 1) % len(c.node)]))), []).append((c, c.node[k], c.node[(k + 1) % len(c.node)]))
        eq = lambda u, v: abs(u - v) <= 1e-9 * max(1., abs(u), abs(v))
        for users in edges.values():
            c, p, q = users[0]
            if len(users) > 2: out[G[8]].append('edge %r-%r used by %d columns' % (p.name, q.name, len(users)))
            elif len(users) == 1 and not ((eq(p.pos[0], xa) and eq(q.pos[0], xa)) or (eq(p.pos[0], xb) and eq(q.pos[0], xb)) or (eq(p.pos[1], ya) and eq(q.pos[1], ya)) or (eq(p.pos[1], yb) and eq(q.pos[1], yb))):
                out[G[8]].append('edge %r-%r of column %r has no partner and is not on the domain boundary' % (p.name, q.name, c.name))
    bl, cl, bi, ci = list(geo.block_name_list), list(geo.block_connection_name_list), dict(geo.block_name_index), dict(geo.block_connection_name_index)
    geo.setup_block_name_index(); geo.setup_block_connection_name_index()
    if bl != geo.block_name_list or bi != geo.block_name_index: out[G[7]].append('block name list %r, fresh %r' % (bl[:8], geo.block_name_list[:8]))
    if cl != geo.block_connection_name_list or ci != geo.block_connection_name_index: out[G[7]].append('block connection name list stale (%d / %d)' % (len(cl), len(geo.block_connection_name_list)))
    if len(set(bl)) != len(bl) or any(len(n) != 5 for n in bl): out[G[7]].append('block names not distinct 5-character strings')
    return out


def apply(geo, op, a, values):
    cl, ll = geo.columnlist, geo.layerlist
    if op == 'delete_column': geo.delete_column(cl[a[0]].name)
    elif op == 'rename_column': geo.rename_column(cl[a[0]].name, ' zz')
    elif op == 'rename_swap': geo.rename_column([cl[a[0]].name, cl[a[1]].name], [cl[a[1]].name, cl[a[0]].name])
    elif op == 'rename_layer': geo.rename_layer(ll[a[0]].name, 'zz')
    elif op == 'split_column': geo.split_column(cl[a[0]].name, cl[a[0]].node[a[1]].name)
    elif op == 'refine': geo.refine([cl[k] for k in a]) if a else geo.refine()
    elif op == 'refine_bisect': geo.refine([cl[k] for k in a], bisect=True)
    elif op == 'refine_bisect_x': geo.refine([cl[k] for k in a], bisect='x')
    elif op == 'refine_bisect_edge': geo.refine([cl[k] for k in a[:2]], bisect='x', bisect_edge_columns=[cl[k] for k in a[2:]])
    elif op == 'refine_edge': geo.refine([cl[k] for k in a[1:1 + a[0]]], bisect_edge_columns=[cl[k] for k in a[1 + a[0]:]])
    elif op == 'refine_layers': geo.refine_layers([ll[k] for k in a[:-1]], factor=a[-1])
    elif op == 'decompose_columns': geo.decompose_columns([cl[k] for k in a]) if a else geo.decompose_columns()
    elif op == 'reduce': geo.reduce([cl[k] for k in a])
    elif op == 'delete_layer': geo.delete_layer(ll[a[0]].name)
    elif op == 'translate': geo.translate(np.array([_val(values, 'tx', 2.5), _val(values, 'ty', -1.5), _val(values, 'tz', 4.)]))
    elif op == 'copy_layers_from':
        from mulgrids import mulgrid
        geo.copy_layers_from(mulgrid().rectangular([1.], [1.], [_val(values, 'cdz%d' % k, 3. + k) for k in range(a[0])], origin=[0., 0., _val(values, 'coz', 90.)]))
    elif op == 'wells':
        from mulgrids import well
        for nm in ('w   1', 'w   2'): geo.add_well(well(nm, [np.array([1., 2., 3.]), np.array([1., 2., -3.])]))
        geo.add_well(well('w   1', [np.zeros(3)])); geo.delete_well('w   1')
    elif op == 'rotate90': geo.rotate(90 * a[0], np.array([_val(values, 'rcx', 1.5), _val(values, 'rcy', -2.5)]))
    elif op == 'snap_to_layers': geo.snap_columns_to_layers(_val(values, 'snap', 0.3))
    elif op == 'snap_to_nearest': geo.snap_columns_to_nearest_layers()
    elif op == 'delete_connection': geo.delete_connection(tuple(c.name for c in geo.connectionlist[a[0]].column))
    else: raise ValueError(op)


def native_edit(arg, values, clause):
    """clause: a group of wf, or 'completes' / 'area' / 'volume'."""
    shape, nsurf, op, a = arg
    geo, dx, dy, dz, org, surf0 = build((shape[0], shape[1], shape[2], shape[3], 0, nsurf), values)
    rects = [(org[0] + sum(dx[:i]), org[0] + sum(dx[:i + 1]), org[1] + sum(dy[:j]), org[1] + sum(dy[:j + 1])) for j in range(shape[1]) for i in range(shape[0])]
    bottom = geo.layerlist[-1].bottom
    area0 = sum(c.area for c in geo.columnlist); vol0 = sum(c.area * (c.surface - bottom) for c in geo.columnlist)
    try:
        apply(geo, op, a, values)
    except Exception as ex:
        return (clause != 'completes'), '%s raises %s: %s' % (op, type(ex).__name__, ex)
    if clause == 'completes':
        return True, 'completes'
    bottom = geo.layerlist[-1].bottom
    if clause == 'area':
        a1 = sum(c.area for c in geo.columnlist)
        return bool(abs(a1 - area0) <= 1e-9 * max(1., abs(area0))), 'plan area %r -> %r' % (area0, a1)
    if clause == 'volume':
        v1 = sum(c.area * (c.surface - bottom) for c in geo.columnlist)
        return bool(abs(v1 - vol0) <= 1e-9 * max(1., abs(vol0))), 'rock volume %r -> %r' % (vol0, v1)
    if clause == 'diagnosis':
        ids = lambda xs: set(id(x) for x in xs)
        want = set()
        for i, ca in enumerate(geo.columnlist):
            for cb in geo.columnlist[i + 1:]:
                if len([n for n in ca.node if any(n is m for m in cb.node)]) >= 2 and not any(ids(k.column) == ids([ca, cb]) for k in geo.connectionlist):
                    want.add(tuple(sorted((ca.name, cb.name))))
        orph = set(n.name for n in geo.nodelist if not any(any(n is m for m in c.node) for c in geo.columnlist))
        got = set(tuple(sorted(c.name for c in k.column)) for k in geo.missing_connections)
        gorph = set(n.name for n in geo.orphans)
        return (got == want and gorph == orph), 'missing %r reported %r; orphans %r reported %r' % (sorted(want), sorted(got), sorted(orph), sorted(gorph))
    if clause == 'tiling':
        bad = []
        sums = [0.] * len(rects)
        for c in geo.columnlist:
            home = [k for k, (xa, xb, ya, yb) in enumerate(rects) if all(xa - 1e-9 <= n.pos[0] <= xb + 1e-9 and ya - 1e-9 <= n.pos[1] <= yb + 1e-9 for n in c.node)]
            if not home: bad.append('column %r lies in no old column' % c.name); continue
            sums[home[0]] += c.area
            if abs(c.surface - surf0[home[0]]) > 1e-9: bad.append('column %r surface %r, old column surface %r' % (c.name, c.surface, surf0[home[0]]))
        for k, (xa, xb, ya, yb) in enumerate(rects):
            if abs(sums[k] - (xb - xa) * (yb - ya)) > 1e-9 * max(1., sums[k]): bad.append('old column %d of area %r holds new columns of total area %r' % (k, (xb - xa) * (yb - ya), sums[k]))
        return (not bad), '; '.join(bad[:3]) or 'tiling holds'
    dom = (rects[0][0], rects[-1][1], rects[0][2], rects[-1][3])
    if op == 'translate':
        t = (_val(values, 'tx', 2.5), _val(values, 'ty', -1.5)); dom = (dom[0] + t[0], dom[1] + t[0], dom[2] + t[1], dom[3] + t[1])
    if op in ('rotate90', 'reduce'): dom = None
    bad = wf(geo, valid_mesh=True, domain=dom)[clause]
    return (not bad), '; '.join(bad[:3]) or 'clause holds'
