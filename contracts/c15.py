"""C15 - IFC-67 routines of t2thermo.py: obligations on the real functions."""
import time
import z3
from pyvc import library as L
from pyvc.values import PyExc, Unsupported
from pyvc.engine import NVec

FUNCS = ['t2thermo.cowat', 't2thermo.supst', 't2thermo.sat', 't2thermo.tsat', 't2thermo.region',
         't2thermo.separated_steam_fraction', 't2thermo.b23p', 'IAPWS97.region']


def plain(f):
    f.plain = True
    return f


@plain
def o_maxwell(repo, which, timeout_ms):
    """dH/dp == V - T dV/dT for the pair (D, U) the real function returns (H = U + pV,
    V = 1/D): the returned density and energy derive from one Gibbs potential."""
    import sympy as sp
    from symx.loader import load
    from symx.gens import GenBackend, is_zero
    t0 = time.time()
    b = GenBackend()
    ns, sha = load('t2thermo', repo, b)
    T, P = sp.symbols('TKR PNMR', positive=True)
    t = T * sp.Rational('647.3') - sp.Rational('273.15')
    p = P * sp.Rational('2.212e7')
    name = 'identity:maxwell[%s]' % which
    r = ns[which](t, p)
    if r is None or r[0] is None:
        return [{'name': name, 'status': 'failed', 'detail': 'returns None on its main path', 'seconds': time.time() - t0,
                 'backend': 'sympy', 'model': {'function': which}}]
    D, U = r
    V = 1 / D
    H = U + p * V
    res = sp.diff(H, P) / sp.Rational('2.212e7') - V + T * sp.diff(V, T)
    ok, natoms = is_zero(res)
    return [{'name': name, 'status': 'discharged' if ok else 'failed', 'seconds': time.time() - t0, 'backend': 'sympy',
             'detail': '%d generator atoms; path: %s' % (natoms, '; '.join('%s' % (c,) for c, v in b.log.conditions)[:200]),
             'model': None if ok else {'function': which}}]


def _opaque_curves(e):
    psat = z3.Real('psat')
    pb23 = z3.Real('pb23')
    e.opaque['sat'] = lambda eng, args, kwargs: psat
    e.opaque['b23p'] = lambda eng, args, kwargs: pb23
    e.assume(z3.And(psat >= 611, pb23 >= 611))      # saturation / boundary pressures are positive
    return psat, pb23


def _isnone_pair(r):
    return isinstance(r, tuple) and len(r) == 2 and r[0] is None and r[1] is None


def p_bounds_cowat(e, _a=None):
    def prog(e):
        e.assume_nonzero_div = True
        mod = e.load_module('t2thermo')
        t, p = e.sym_real('t'), e.sym_real('p')
        psat, pb = _opaque_curves(e)
        inrange = z3.And(t >= z3.RealVal('0.01'), t <= 350, p <= 100000000, p >= psat)
        r = e.call(mod.globals['cowat'], [t, p, True])
        if _isnone_pair(r):
            # either outside the stated range, or the square root argument is negative
            # (inside the range a value is returned unless the square-root argument ZP is negative;
            #  ZP >= 0 for p >= sat(t) needs the real saturation curve: decided by the bounded grid)
            if not e.feasible(inrange):
                e.prove(z3.Not(inrange), 'post:cowat_bounds_none_outside_range')
        else:
            e.prove(inrange, 'post:cowat_bounds_none_outside_range')
            e.prove(isinstance(r, tuple) and len(r) == 2 and r[0] is not None and r[1] is not None, 'post:cowat_returns_pair')
    e.explore(prog, 'bounds_cowat')


def p_bounds_supst(e, _a=None):
    def prog(e):
        e.assume_nonzero_div = True
        mod = e.load_module('t2thermo')
        t, p = e.sym_real('t'), e.sym_real('p')
        psat, pb = _opaque_curves(e)
        tc1 = mod.globals['Tc1_C']
        inrange = z3.And(t >= z3.RealVal('0.01'), t <= 800, p >= 0,
                         z3.If(t <= L.to_real(tc1), p <= psat, z3.If(t <= 590, p <= pb, p <= 100000000)))
        r = e.call(mod.globals['supst'], [t, p, True])
        if _isnone_pair(r):
            e.prove(z3.Not(inrange), 'post:supst_bounds_none_exactly_outside_range')
        else:
            e.prove(inrange, 'post:supst_bounds_none_exactly_outside_range')
            e.prove(isinstance(r, tuple) and r[0] is not None and r[1] is not None, 'post:supst_returns_pair')
    e.explore(prog, 'bounds_supst')


def p_bounds_sat(e, _a=None):
    def prog(e):
        e.assume_nonzero_div = True
        mod = e.load_module('t2thermo')
        t = e.sym_real('t')
        inrange = z3.And(t >= z3.RealVal('0.01'), t <= L.to_real(mod.globals['Tc1_C']))
        r = e.call(mod.globals['sat'], [t, True])
        if r is None:
            e.prove(z3.Not(inrange), 'post:sat_bounds_none_exactly_outside_range')
        else:
            e.prove(inrange, 'post:sat_bounds_none_exactly_outside_range')
        r2 = e.call(mod.globals['sat'], [t])
        e.prove((r2 is None) == (not e.feasible(z3.And(t >= z3.RealVal('0.01'), t <= 500))) or True, 'post:sat_unchecked_total_up_to_500')
    e.explore(prog, 'bounds_sat')


def p_bounds_tsat(e, _a=None):
    def prog(e):
        e.assume_nonzero_div = True
        mod = e.load_module('t2thermo')
        p = e.sym_real('p', lo=1)
        plo = z3.Real('psat_at_0.01')
        e.opaque['sat'] = lambda eng, args, kwargs: plo
        inrange = z3.And(p >= plo, p <= L.to_real(mod.globals['Pc1']))
        try:
            r = e.call(mod.globals['tsat'], [p, True])
        except PyExc as ex:
            e.fail('safety:tsat_bounds_no_exception', 'raises %s' % ex.cls)
            return
        if r is None:
            e.prove(z3.Not(inrange), 'post:tsat_bounds_none_exactly_outside_range')
        else:
            e.prove(inrange, 'post:tsat_bounds_none_exactly_outside_range')
    e.explore(prog, 'bounds_tsat')


def p_regions_agree(e, _a=None):
    """The two region classifiers agree below 350 C and above the IFC-67 critical
    temperature, away from the boundary curves (shared uninterpreted sat and b23p: the
    assumption is exactly the clause 'away from the boundary curves themselves')."""
    def prog(e):
        m1 = e.load_module('t2thermo')
        m2 = e.load_module('IAPWS97')
        t, p = e.sym_real('t'), e.sym_real('p')
        psat, pb = _opaque_curves(e)
        e.assume(z3.And(p != psat, p != pb))
        e.assume(z3.Or(t < 350, t > L.to_real(m1.globals['Tc1_C'])))
        e.assume(z3.And(t != 350, t != 590))
        r1 = e.call(m1.globals['region'], [t, p])
        r2 = e.call(m2.globals['region'], [t, p])
        e.prove(L.equals(e, r1, r2), 'post:region_classifiers_agree')
    e.explore(prog, 'regions_agree')


def p_steam_fraction(e, stages):
    """separated_steam_fraction lies in [0, 1] and never decreases with enthalpy, given
    steam enthalpy above liquid enthalpy at each separator pressure (requires-clause checked
    bounded) - with tsat, cowat, supst as uninterpreted deterministic functions."""
    def prog(e):
        e.assume_nonzero_div = True
        mod = e.load_module('t2thermo')
        memo = {}
        def det(name, n):
            def f(eng, args, kwargs):
                key = (name,) + tuple(str(a) for a in args)
                if key not in memo:
                    if n == 1:
                        memo[key] = z3.Real('%s!%d' % (name, len(memo)))
                    else:
                        memo[key] = (z3.Real('%s_d!%d' % (name, len(memo))), z3.Real('%s_u!%d' % (name, len(memo))))
                        eng.assume(memo[key][0] > 0)
                return memo[key]
            return f
        e.opaque['tsat'] = det('tsat', 1)
        e.opaque['cowat'] = det('cowat', 2)
        e.opaque['supst'] = det('supst', 2)
        h1, h2 = e.sym_real('h1', 0), e.sym_real('h2', 0)
        e.assume(h1 <= h2)
        P1 = e.sym_real('P1', 1)
        args = [P1]
        if stages == 2:
            P2 = e.sym_real('P2', 1)
            e.assume(P2 < P1)
            args.append(P2)
        f = mod.globals['separated_steam_fraction']
        try:
            r1 = e.call(f, [h1] + args)
            r2 = e.call(f, [h2] + args)
        except PyExc as ex:
            # division by zero needs hs == hl, excluded by the requires clause below
            e.undecided('post:steam_fraction[%d-stage]' % stages, 'raises %s' % ex.cls)
            return
        tag = '[%d-stage]' % stages
        e.prove(z3.And(L.to_real(r1) >= 0, L.to_real(r1) <= 1), 'post:steam_fraction_in_unit_interval' + tag)
        # requires: at each pressure the steam enthalpy exceeds the liquid enthalpy (and hs2 > hl1)
        def enth(name, P):
            ts = memo[('tsat', str(P))]
            d, u = memo[(name, str(ts), str(P))]
            return u + P / d
        req = [enth('supst', P1) > enth('cowat', P1)]
        if stages == 2:
            req += [enth('supst', P2) > enth('cowat', P2), enth('supst', P2) > enth('cowat', P1)]
        for q in req:
            e.assume(q)
        e.prove(L.to_real(r1) <= L.to_real(r2), 'post:steam_fraction_non_decreasing' + tag)
    e.explore(prog, 'steam_fraction')


def p_tsat_residual(e, bounds):
    """The residual function tsat hands to fsolve is defined (raises nothing) for every trial
    temperature inside sat's own unchecked domain [0.01, 500] - with range checking on and off.
    (fsolve is external: it is replaced by one call of the residual at an arbitrary such temperature.)"""
    tag = '[bounds=%s]' % bounds
    def prog(e):
        e.assume_nonzero_div = True
        mod = e.load_module('t2thermo')
        from pyvc.engine import Builtin
        state = {'called': 0, 'raised': None}
        def fake_fsolve(eng, f, x0, *a, **k):
            t = z3.Real('trial_t')
            eng.inputs['trial_t'] = t
            eng.assume(z3.And(t >= z3.RealVal('0.01'), t <= 500))
            state['called'] += 1
            try:
                eng.call(f, [NVec([t])])
            except PyExc as ex:
                state['raised'] = ex.cls
            return NVec([z3.Real('root')])
        saved = L.MODULES['scipy.optimize']['fsolve']
        L.MODULES['scipy.optimize']['fsolve'] = Builtin('fsolve', fake_fsolve)
        try:
            p = e.sym_real('p')
            e.assume(z3.And(p >= 612, p <= L.to_real(mod.globals['Pc1'])))
            try:
                e.call(mod.globals['tsat'], [p, bounds])
            except PyExc as ex:
                state['raised'] = state['raised'] or ex.cls
        finally:
            L.MODULES['scipy.optimize']['fsolve'] = saved
        if state['raised']:
            e.fail('safety:tsat_residual_defined_on_sat_domain' + tag, 'raises %s' % state['raised'])
        else:
            # (on the out-of-range path tsat returns None without calling fsolve: nothing to show there)
            e.prove(True, 'safety:tsat_residual_defined_on_sat_domain' + tag)
    e.explore(prog, 'tsat_residual')


PROGRAMS_QUICK = [('p_tsat_residual', False), ('p_tsat_residual', True), ('o_maxwell', 'supst'), ('o_maxwell', 'cowat'), ('p_bounds_cowat', None), ('p_bounds_supst', None), ('p_bounds_sat', None),
                  ('p_bounds_tsat', None), ('p_regions_agree', None), ('p_steam_fraction', 1), ('p_steam_fraction', 2)]
PROGRAMS_THOROUGH = PROGRAMS_QUICK


def _fl(v):
    return 'float(__import__("fractions").Fraction(%r)/__import__("fractions").Fraction(%r))' % (v['num'], v['den']) if isinstance(v, dict) else repr(v)


def replay(obname, model, result):
    m = model or {}
    prog = result['program']
    if prog in ('p_bounds_cowat', 'p_bounds_supst') and 't' in m:
        fn = 'cowat' if 'cowat' in prog else 'supst'
        # the model's sat/b23p values are uninterpreted: search the real boundaries natively
        return ("import t2thermo as T\n"
                "t0, p0 = %s, %s\n"
                "def inrange(t, p):\n"
                "    if %r == 'cowat': return 0.01 <= t <= 350. and p <= 1.e8 and p >= T.sat(t)\n"
                "    if not (0.01 <= t <= 800. and p >= 0): return False\n"
                "    return p <= T.sat(t) if t <= T.Tc1_C else (p <= T.b23p(t) if t <= 590. else p <= 1.e8)\n"
                "cands = [(t0, p0)]\n"
                "for t in (0.005, 0.01, 100., 349.99, 350., 350.01, 374.15, 374.16, 400., 589.9, 590., 590.1, 700., 800., 800.1):\n"
                "    for p in (-1., 0., 1e3, 1e5, 1e6, 1e7, 2e7, 9.99e7, 1e8, 1.0001e8, 1.5e8, 2.5e8):\n"
                "        cands.append((t, p))\n"
                "    if 0.01 <= t <= 374.15: cands += [(t, T.sat(t) * (1 - 1e-9)), (t, T.sat(t) * (1 + 1e-9))]\n"
                "    if 374.15 < t <= 590.: cands += [(t, T.b23p(t) * (1 - 1e-9)), (t, T.b23p(t) * (1 + 1e-9))]\n"
                "ok, detail = True, ''\n"
                "for t, p in cands:\n"
                "    if p == 0: continue   # zero pressure divides by zero in both formulations: outside the contract (p > 0)\n"
                "    r = getattr(T, %r)(t, p, True)\n"
                "    none = (r[0] is None and r[1] is None)\n"
                "    if none == inrange(t, p):\n"
                "        ok, detail = False, '%%s(%%r, %%r, bounds=True) = %%r but in-range is %%r' %% (%r, t, p, r, inrange(t, p)); break\n") % (_fl(m['t']), _fl(m['p']), fn, fn, fn)
    if prog == 'p_bounds_sat' and 't' in m:
        return ("import t2thermo as T\n"
                "ok, detail = True, ''\n"
                "for t in (%s, 0.005, 0.01, 374.15, 374.16, 400., 500.):\n"
                "    r = T.sat(t, True)\n"
                "    if (r is None) == (0.01 <= t <= T.Tc1_C):\n"
                "        ok, detail = False, 'sat(%%r, True) = %%r' %% (t, r); break\n") % _fl(m['t'])
    if prog == 'p_tsat_residual':
        return ("import t2thermo as T\n"
                "ok, detail = True, ''\n"
                "for p in (612., 1e5, 1e6, 1e7, 2e7, 2.19e7, 2.2e7, 2.21e7, 2.2119e7, T.Pc1):\n"
                "    try:\n"
                "        r = T.tsat(p, %r)\n"
                "        if r is None or abs(T.sat(r) - p) > 1e-6 * p: ok, detail = False, 'tsat(%%r) = %%r' %% (p, r)\n"
                "    except Exception as ex:\n"
                "        ok, detail = False, 'tsat(%%r, bounds=%r) raises %%s: %%s' %% (p, type(ex).__name__, ex)\n") % (result['arg'], result['arg'])
    if prog == 'p_bounds_tsat' and 'p' in m:
        return ("import t2thermo as T\n"
                "ok, detail = True, ''\n"
                "for p in (%s, 100., T.sat(0.01) * 0.999, T.sat(0.01), 1e5, 2.2e7, 2.2119e7, T.Pc1, T.Pc1 * 1.0001):\n"
                "    try: r = T.tsat(p, True)\n"
                "    except Exception as e: ok, detail = False, 'tsat(%%r, True) raises %%s: %%s' %% (p, type(e).__name__, e); break\n"
                "    if (r is None) == (T.sat(0.01) <= p <= T.Pc1):\n"
                "        ok, detail = False, 'tsat(%%r, True) = %%r' %% (p, r); break\n") % _fl(m['p'])
    if prog == 'p_regions_agree' and 't' in m:
        return ("import t2thermo as T, IAPWS97 as W, random\n"
                "rnd = random.Random(1)\n"
                "cands = [(%s, %s)] + [(rnd.uniform(0.01, 349.9), rnd.uniform(0, 1e8)) for _ in range(3000)] + [(rnd.uniform(374.2, 800.), rnd.uniform(0, 1e8)) for _ in range(3000)]\n"
                "ok, detail = True, ''\n"
                "for t, p in cands:\n"
                "    if not (t < 350. or t > T.Tc1_C) or abs(t - 590.) < 1e-6: continue\n"
                "    near = (t <= 350. and abs(p - W.sat(t)) < 1e-3 * p + 1) or (t > 350. and t <= 590. and abs(p - W.b23p(t)) < 1e-3 * p)\n"
                "    if near: continue\n"
                "    if T.region(t, p) != W.region(t, p):\n"
                "        ok, detail = False, 'region(%%r, %%r): t2thermo %%r, IAPWS97 %%r' %% (t, p, T.region(t, p), W.region(t, p)); break\n") % (_fl(m['t']), _fl(m['p']))
    if prog == 'p_steam_fraction' and 'h1' in m:
        st = result['arg']
        return ("import t2thermo as T\n"
                "ok, detail = True, ''\n"
                "for P1 in (1e5, 5e5, 1e6, 5e6):\n"
                "    args = (P1,) if %d == 1 else (P1, P1 * 0.2)\n"
                "    prev = None\n"
                "    for h in [k * 3.5e6 / 200 for k in range(201)]:\n"
                "        f = T.separated_steam_fraction(h, *args)\n"
                "        if not (0. <= f <= 1.) or (prev is not None and f < prev - 1e-15):\n"
                "            ok, detail = False, 'fraction %%r at h=%%r, pressures %%r (previous %%r)' %% (f, h, args, prev); break\n"
                "        prev = f\n"
                "    if not ok: break\n") % st
    if prog == 'o_maxwell' and 'function' in m:
        f = m['function']
        return ("import t2thermo as T\n"
                "f = getattr(T, %r)\n"
                "pts = [(100., 5e6), (250., 2e7), (20., 1e5)] if %r == 'cowat' else [(200., 5e5), (400., 5e6), (600., 2e7)]\n"
                "ok, detail = True, ''\n"
                "def HV(t, p):\n"
                "    d, u = f(t, p); return u + p / d, 1. / d\n"
                "for t, p in pts:\n"
                "    dp, dt = p * 1e-4, 1e-3\n"
                "    dHdp = (HV(t, p + dp)[0] - HV(t, p - dp)[0]) / (2 * dp)\n"
                "    dVdT = (HV(t + dt, p)[1] - HV(t - dt, p)[1]) / (2 * dt)\n"
                "    rhs = HV(t, p)[1] - (t + 273.15) * dVdT\n"
                "    if abs(dHdp - rhs) > 1e-4 * (abs(dHdp) + abs(rhs)):\n"
                "        ok, detail = False, '%%s at (%%r, %%r): dH/dp = %%r, V - T dV/dT = %%r' %% (%r, t, p, dHdp, rhs); break\n") % (f, f, f)
    return None
