"""C09 - reordering / reversing connections and renaming blocks keep the physical network
(real t2grid.reorder and rename_blocks on a small grid with symbolic numeric contents)."""
import itertools
import z3
from pyvc.engine import Obj, NVec
from pyvc import library as L
from pyvc.values import PyExc, to_real

FUNCS = ['t2grids.t2grid.reorder', 't2grids.t2grid.rename_blocks', 't2grids.t2grid.add_block', 't2grids.t2grid.add_connection']
NAMES = ['  a 1', '  b 1', '  c 1', '  d 1']
CONS = [(0, 1), (1, 2), (2, 3), (0, 3)]


def make_grid(e):
    g = e.load_module('t2grids').globals
    grid = Obj(g['t2grid'])
    e.call(e.get_function('t2grids.t2grid.empty'), [grid])
    rt = e.call(g['rocktype'], [])
    e.call(e.get_function('t2grids.t2grid.add_rocktype'), [grid, rt])
    for k, n in enumerate(NAMES):
        blk = e.call(g['t2block'], [n, e.sym_real('vol%d' % k, 0), rt], {'centre': NVec([e.sym_real('x%d' % k), e.sym_real('y%d' % k), e.sym_real('z%d' % k)])})
        e.call(e.get_function('t2grids.t2grid.add_block'), [grid, blk])
    for k, (a, b) in enumerate(CONS):
        con = e.call(g['t2connection'], [[grid.fields['block'][NAMES[a]], grid.fields['block'][NAMES[b]]], e.sym_int('dir%d' % k, 1, 3),
                                         [e.sym_real('d%da' % k, 0), e.sym_real('d%db' % k, 0)], e.sym_real('area%d' % k, 0), e.sym_real('dircos%d' % k, -1, 1)],
                     {'nad1': e.sym_int('nad1_%d' % k), 'nad2': e.sym_int('nad2_%d' % k)})
        e.call(e.get_function('t2grids.t2grid.add_connection'), [grid, con])
    return grid


def signature(grid):
    """Physical signature: per block (volume, centre, rocktype name); per unordered pair
    (area, direction, {block name: its own distance and nad}, gravity cosine as seen from a
    fixed one of the two blocks)."""
    blocks = dict((b.fields['name'], (b.fields['volume'], tuple(b.fields['centre'].items), b.fields['rocktype'].fields['name'])) for b in grid.fields['blocklist'])
    cons = {}
    for c in grid.fields['connectionlist']:
        n0, n1 = [b.fields['name'] for b in c.fields['block']]
        key = frozenset((n0, n1))
        first = sorted((n0, n1))[0]
        dc = to_real(c.fields['dircos'])
        oriented = dc if n0 == first else -dc           # cosine of the line first -> other
        cons[key] = {'area': c.fields['area'], 'direction': c.fields['direction'],
                     'dist': {n0: c.fields['distance'][0], n1: c.fields['distance'][1]},
                     'nad': {n0: c.fields['nad1'], n1: c.fields['nad2']}, 'cos': oriented}
    return blocks, cons


def same(e, a, b):
    if isinstance(a, dict):
        return isinstance(b, dict) and set(a) == set(b) and all(same(e, a[k], b[k]) for k in a)
    if isinstance(a, tuple):
        return isinstance(b, tuple) and len(a) == len(b) and all(same(e, x, y) for x, y in zip(a, b))
    r = L.equals(e, a, b)
    if isinstance(r, bool):
        return r
    return e.prove(r, '_aux') if False else _valid(e, r)


def _valid(e, cond):
    return e.valid(cond, 10000)


def wf(grid):
    f = grid.fields
    names = [b.fields['name'] for b in f['blocklist']]
    ok = len(set(names)) == len(names) and set(f['block']) == set(names) and all(f['block'][n] is b for n, b in zip(names, f['blocklist']))
    keys = []
    for c in f['connectionlist']:
        k = tuple(b.fields['name'] for b in c.fields['block'])
        keys.append(k)
        ok = ok and f['connection'].get(k) is c and all(f['block'].get(b.fields['name']) is b for b in c.fields['block'])
    ok = ok and set(f['connection']) == set(keys) and len(set(keys)) == len(keys)
    for b in f['blocklist']:
        ok = ok and b.fields['connection_name'] == set(k for k in keys if b.fields['name'] in k)
    return ok


def p_reorder(e, mask):
    tag = '[reversed=%s]' % ''.join('1' if m else '0' for m in mask)
    def prog(e):
        grid = make_grid(e)
        before = signature(grid)
        perm = [2, 0, 3, 1]
        cn = []
        for k in perm:
            a, b = CONS[k]
            cn.append((NAMES[b], NAMES[a]) if mask[k] else (NAMES[a], NAMES[b]))
        bn = [NAMES[i] for i in (3, 1, 0, 2)]
        e.call(e.get_function('t2grids.t2grid.reorder'), [grid], {'block_names': bn, 'connection_names': cn})
        after = signature(grid)
        e.prove([b.fields['name'] for b in grid.fields['blocklist']] == bn, 'post:blocks_in_requested_order' + tag)
        e.prove([tuple(b.fields['name'] for b in c.fields['block']) for c in grid.fields['connectionlist']] == cn, 'post:connections_in_requested_order_and_orientation' + tag)
        e.prove(same(e, before[0], after[0]), 'post:blocks_keep_volume_centre_rocktype' + tag)
        for key in before[1]:
            for what in ('area', 'direction', 'dist', 'nad', 'cos'):
                e.prove(key in after[1] and same(e, before[1][key][what], after[1][key][what]),
                        'post:connection_keeps_%s' % {'area': 'interface_area', 'direction': 'permeability_direction', 'dist': 'each_blocks_own_distance',
                                                      'nad': 'each_blocks_own_nad', 'cos': 'which_block_is_upper'}[what] + tag)
        e.prove(wf(grid), 'post:grid_well_formed_after_reorder' + tag)
    e.explore(prog, 'reorder')


def p_rename(e, which):
    maps = {'swap': {NAMES[0]: NAMES[1], NAMES[1]: NAMES[0]}, 'cycle': {NAMES[0]: NAMES[1], NAMES[1]: NAMES[2], NAMES[2]: NAMES[0]},
            'fresh': {NAMES[0]: '  e 1', NAMES[3]: '  f 1'}, 'chain': {NAMES[0]: NAMES[1], NAMES[1]: '  e 1'}}
    bm = maps[which]
    tag = '[%s]' % which
    def prog(e):
        grid = make_grid(e)
        before = signature(grid)
        e.call(e.get_function('t2grids.t2grid.rename_blocks'), [grid, dict(bm)])
        after = signature(grid)
        ren = lambda n: bm.get(n, n)
        e.prove(wf(grid), 'post:grid_well_formed_after_rename' + tag)
        e.prove(set(after[0]) == set(ren(n) for n in before[0]) and len(grid.fields['block']) == len(NAMES), 'post:rename_loses_no_block' + tag)
        e.prove(all(ren(n) in after[0] and same(e, before[0][n], after[0][ren(n)]) for n in before[0]), 'post:renamed_blocks_keep_volume_centre_rocktype' + tag)
        okc = True
        for key, v in before[1].items():
            nk = frozenset(ren(n) for n in key)
            okc = okc and nk in after[1] and same(e, v['area'], after[1][nk]['area']) and same(e, v['direction'], after[1][nk]['direction']) and \
                same(e, dict((ren(n), d) for n, d in v['dist'].items()), after[1][nk]['dist'])
            if okc:
                first_b, first_a = sorted(key)[0], sorted(nk)[0]
                flip = ren(first_b) != first_a
                okc = okc and same(e, -v['cos'] if flip else v['cos'], after[1][nk]['cos'])
        e.prove(okc, 'post:renamed_connections_keep_area_direction_distances_orientation' + tag)
    e.explore(prog, 'rename')


def p_embed(e, own_objects):
    """embed(subgrid, connection): the result is well formed, the embedding connection is
    recorded on the result's own blocks, and total volume is conserved; None exactly when the
    subgrid does not fit or names clash.  The connection may name its blocks by objects that
    are not the grids' own (copies / placeholders with the right names)."""
    tag = '[own block objects]' if own_objects else '[placeholder block objects]'
    def prog(e):
        g = e.load_module('t2grids').globals
        def grid(names, pre):
            gr = Obj(g['t2grid'])
            e.call(e.get_function('t2grids.t2grid.empty'), [gr])
            rt = e.call(g['rocktype'], [], {'name': pre + 'rck'})
            e.call(e.get_function('t2grids.t2grid.add_rocktype'), [gr, rt])
            for n in names:
                e.call(e.get_function('t2grids.t2grid.add_block'), [gr, e.call(g['t2block'], [n, e.sym_real('vol_' + n.strip().replace(' ', '_'), 0), rt])])
            con = e.call(g['t2connection'], [[gr.fields['block'][names[0]], gr.fields['block'][names[1]]], 1, [e.sym_real(pre + 'd1', 0), e.sym_real(pre + 'd2', 0)], e.sym_real(pre + 'ar', 0), 0])
            e.call(e.get_function('t2grids.t2grid.add_connection'), [gr, con])
            return gr, rt
        host, hrt = grid(['  a 1', '  b 1'], 'h')
        sub, srt = grid(['  c 1', '  d 1'], 's')
        hb, sb = host.fields['block']['  a 1'], sub.fields['block']['  c 1']
        if own_objects:
            ends = [hb, sb]
        else:
            ends = [e.call(g['t2block'], ['  a 1', hb.fields['volume'], hrt]), e.call(g['t2block'], ['  c 1', sb.fields['volume'], srt])]
        con = e.call(g['t2connection'], [ends, 2, [e.sym_real('e1', 0), e.sym_real('e2', 0)], e.sym_real('ea', 0), 0])
        before = sum(to_real(b.fields['volume']) for b in host.fields['blocklist'])
        subvol = sum(to_real(b.fields['volume']) for b in sub.fields['blocklist'])
        hostvol0 = to_real(hb.fields['volume'])
        res = e.call(e.get_function('t2grids.t2grid.embed'), [host, sub, con])
        if res is None:
            e.prove(subvol >= hostvol0, 'post:embed_refuses_only_a_subgrid_that_does_not_fit' + tag)
            return
        e.prove(subvol < hostvol0, 'post:embed_refuses_only_a_subgrid_that_does_not_fit' + tag)
        e.prove(wf(res), 'post:grid_well_formed_after_embed' + tag)
        e.prove(_valid(e, sum(to_real(b.fields['volume']) for b in res.fields['blocklist']) == before), 'post:embed_conserves_total_volume' + tag)
        key = ('  a 1', '  c 1')
        e.prove(res.fields['connection'].get(key) is con and all(key in res.fields['block'][n].fields['connection_name'] for n in key),
                'post:embedding_connection_recorded_on_the_result_blocks' + tag)
    e.explore(prog, 'embed')


PROGRAMS = [('p_embed', True), ('p_embed', False)] + [('p_reorder', m) for m in itertools.product([False, True], repeat=4)] + [('p_rename', w) for w in ('swap', 'cycle', 'fresh', 'chain')]


def replay(obname, model, result):
    prog = result['program']
    if prog == 'p_embed':
        return ("from t2grids import *\n"
                "own = %r\n"
                "def grid(names, pre):\n"
                "    g = t2grid(); rt = rocktype(name=pre + 'rck'); g.add_rocktype(rt)\n"
                "    for k, n in enumerate(names): g.add_block(t2block(n, 10. + k if pre == 'h' else 1. + k, rt))\n"
                "    g.add_connection(t2connection([g.block[names[0]], g.block[names[1]]], 1, [1., 2.], 3., 0.)); return g, rt\n"
                "host, hrt = grid(['  a 1', '  b 1'], 'h'); sub, srt = grid(['  c 1', '  d 1'], 's')\n"
                "ends = [host.block['  a 1'], sub.block['  c 1']] if own else [t2block('  a 1', 10., hrt), t2block('  c 1', 1., srt)]\n"
                "con = t2connection(ends, 2, [0.5, 0.5], 2., 0.)\n"
                "before = sum(b.volume for b in host.blocklist)\n"
                "res = host.embed(sub, con)\n"
                "names = [b.name for b in res.blocklist]\n"
                "ok = res is not None and abs(sum(b.volume for b in res.blocklist) - before) < 1e-12 and all(res.block[n] is b for n, b in zip(names, res.blocklist))\n"
                "keys = [tuple(b.name for b in c.block) for c in res.connectionlist]\n"
                "ok = ok and all(res.connection.get(k) is c and all(res.block.get(b.name) is b for b in c.block) for k, c in zip(keys, res.connectionlist))\n"
                "ok = ok and all(b.connection_name == set(k for k in keys if b.name in k) for b in res.blocklist)\n"
                "detail = 'connections %%r; per-block records %%r' %% (keys, dict((b.name, sorted(b.connection_name)) for b in res.blocklist))\n") % (result['arg'],)
    if prog == 'p_reorder':
        mask = result['arg']
        return ("from t2grids import *\nimport numpy as np\n"
                "NAMES = ['  a 1', '  b 1', '  c 1', '  d 1']; CONS = [(0, 1), (1, 2), (2, 3), (0, 3)]; mask = %r\n"
                "g = t2grid(); g.add_rocktype(rocktype())\n"
                "for k, n in enumerate(NAMES): g.add_block(t2block(n, 1. + k, g.rocktypelist[0], centre=np.array([k, 2. * k, -3. * k])))\n"
                "for k, (a, b) in enumerate(CONS): g.add_connection(t2connection([g.block[NAMES[a]], g.block[NAMES[b]]], 1 + k %% 3, [1. + k, 10. + k], 5. + k, [-1., 0.5, 0., -0.25][k], nad1=k, nad2=10 + k))\n"
                "def sig(g):\n"
                "    out = {}\n"
                "    for c in g.connectionlist:\n"
                "        n0, n1 = c.block[0].name, c.block[1].name; first = min(n0, n1)\n"
                "        out[frozenset((n0, n1))] = (c.area, c.direction, {n0: c.distance[0], n1: c.distance[1]}, {n0: c.nad1, n1: c.nad2}, (c.dircos if n0 == first else -c.dircos) + 0.)\n"
                "    return out\n"
                "before = sig(g)\n"
                "cn = []\n"
                "for k in [2, 0, 3, 1]:\n"
                "    a, b = CONS[k]; cn.append((NAMES[b], NAMES[a]) if mask[k] else (NAMES[a], NAMES[b]))\n"
                "g.reorder(block_names=[NAMES[i] for i in (3, 1, 0, 2)], connection_names=cn)\n"
                "after = sig(g)\n"
                "ok = before == after and [tuple(b.name for b in c.block) for c in g.connectionlist] == cn\n"
                "detail = 'before %%r after %%r' %% (before, after)\n") % (list(mask),)
    if prog == 'p_rename':
        return ("from t2grids import *\n"
                "maps = {'swap': {'  a 1': '  b 1', '  b 1': '  a 1'}, 'cycle': {'  a 1': '  b 1', '  b 1': '  c 1', '  c 1': '  a 1'}, 'fresh': {'  a 1': '  e 1', '  d 1': '  f 1'}, 'chain': {'  a 1': '  b 1', '  b 1': '  e 1'}}\n"
                "bm = maps[%r]\n"
                "NAMES = ['  a 1', '  b 1', '  c 1', '  d 1']; CONS = [(0, 1), (1, 2), (2, 3), (0, 3)]\n"
                "g = t2grid(); g.add_rocktype(rocktype())\n"
                "for k, n in enumerate(NAMES): g.add_block(t2block(n, 1. + k, g.rocktypelist[0]))\n"
                "for k, (a, b) in enumerate(CONS): g.add_connection(t2connection([g.block[NAMES[a]], g.block[NAMES[b]]], 1, [1. + k, 10. + k], 5. + k, -1.))\n"
                "vols = dict((bm.get(b.name, b.name), b.volume) for b in g.blocklist)\n"
                "g.rename_blocks(dict(bm))\n"
                "names = [b.name for b in g.blocklist]\n"
                "ok = len(g.block) == 4 and set(g.block) == set(names) and all(g.block[n] is b for n, b in zip(names, g.blocklist)) and all(g.block[n].volume == v for n, v in vols.items())\n"
                "ok = ok and all(g.connection.get(tuple(b.name for b in c.block)) is c for c in g.connectionlist) and len(g.connection) == 4\n"
                "ok = ok and all(b.connection_name == set(k for k in g.connection if b.name in k) for b in g.blocklist)\n"
                "detail = 'lookup %%r list %%r connections %%r' %% (sorted(g.block), names, sorted(g.connection))\n") % (result['arg'],)
    return None
