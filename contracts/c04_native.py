"""Native replay (CPython, real classes, floats) of the C04 / C18 whole-geometry obligations on a
rectangular geometry with the solver's values."""


def _val(values, name, default):
    v = (values or {}).get(name)
    if isinstance(v, dict):
        return float(int(v['num'])) / float(int(v['den']))
    return float(v) if v is not None else default


def build(arg, values):
    import numpy as np
    from mulgrids import mulgrid
    nx, ny, nz, atm, convention, nsurf = arg[:6]
    dx = [_val(values, 'dx%d' % k, 10. + 3 * k) for k in range(nx)]
    dy = [_val(values, 'dy%d' % k, 8. + 2 * k) for k in range(ny)]
    dz = [_val(values, 'dz%d' % k, 5. + k) for k in range(nz)]
    org = [_val(values, 'ox', 3.), _val(values, 'oy', -7.), _val(values, 'oz', 100.)]
    geo = mulgrid().rectangular(dx, dy, dz, atmos_type=atm, convention=convention, origin=org)
    geo.atmosphere_volume = _val(values, 'atmvol', 1.e25); geo.atmosphere_connection = _val(values, 'atmcon', 1.e-6)
    bottom = org[2] - sum(dz)
    surf = [org[2]] * (nx * ny)
    for k in range(min(nsurf, nx * ny)):
        s = _val(values, 'surf%d' % k, org[2] - dz[0] * 0.4 - k * dz[0])
        if s <= bottom: s = bottom + 0.5 * dz[-1]
        geo.columnlist[k].surface = s
        geo.set_column_num_layers(geo.columnlist[k])
        surf[k] = s
    geo.setup_block_name_index(); geo.setup_block_connection_name_index()
    return geo, dx, dy, dz, org, surf


def native_fromgeo_rect(arg, values):
    import numpy as np
    from t2grids import t2grid
    nx, ny, nz, atm = arg[:4]
    geo, dx, dy, dz, org, surf = build(arg, values)
    grid = t2grid().fromgeo(geo)
    bad = []
    close = lambda a, b: abs(a - b) <= 1e-9 * max(1., abs(a), abs(b))
    names = [b.name for b in grid.blocklist]
    if names != geo.block_name_list: bad.append('blocks %r announced %r' % (names, geo.block_name_list))
    cn = [tuple(b.name for b in c.block) for c in grid.connectionlist]
    if cn != geo.block_connection_name_list: bad.append('connections differ from the announced list: grid %r announced %r' % (cn[:6], geo.block_connection_name_list[:6]))
    bottoms = [org[2] - sum(dz[:k + 1]) for k in range(nz)]; tops = [org[2]] + bottoms[:-1]
    colidx = dict((c.name, k) for k, c in enumerate(geo.columnlist)); layidx = dict((l.name, k) for k, l in enumerate(geo.layerlist))
    natm = geo.num_atmosphere_blocks
    where, total = {}, 0.
    for b in grid.blocklist[natm:]:
        ci, li = colidx[geo.column_name(b.name)], layidx[geo.layer_name(b.name)]
        where[b.name] = (ci, li)
        bot, top, sf = bottoms[li - 1], tops[li - 1], surf[ci]
        btop = sf if (sf <= top or li == 1) else top
        area = dx[ci % nx] * dy[ci // nx]
        if not close(b.volume, area * (btop - bot)): bad.append('block %r volume %r, area x height %r' % (b.name, b.volume, area * (btop - bot)))
        total += b.volume
    want = sum(dx[k % nx] * dy[k // nx] * (surf[k] - bottoms[-1]) for k in range(nx * ny))
    if not close(total, want): bad.append('total rock volume %r, sum of area x depth %r' % (total, want))
    for c in grid.connectionlist:
        n0, n1 = c.block[0].name, c.block[1].name
        if n0 in where and n1 in where and where[n0][1] == where[n1][1]:
            (c0, li), (c1, _) = where[n0], where[n1]
            xdir = c0 // nx == c1 // nx
            edge = dy[c0 // nx] if xdir else dx[c0 % nx]
            h0, h1 = ((dx[c0 % nx] / 2, dx[c1 % nx] / 2) if xdir else (dy[c0 // nx] / 2, dy[c1 // nx] / 2))
            bot, top = bottoms[li - 1], tops[li - 1]
            hh = lambda ci: (surf[ci] if (surf[ci] <= top or li == 1) else top) - bot
            if not (close(c.area, edge * min(hh(c0), hh(c1))) and close(c.distance[0], h0) and close(c.distance[1], h1)):
                bad.append('horizontal connection %r area %r distances %r; edge x lower height %r, perpendicular distances %r' % ((n0, n1), c.area, c.distance, edge * min(hh(c0), hh(c1)), (h0, h1)))
            dzc = c.block[1].centre[2] - c.block[0].centre[2]
            wantcos = -dzc / np.sqrt((h0 + h1) ** 2 + dzc ** 2)
            if not close(c.dircos, wantcos): bad.append('horizontal connection %r cosine %r, centre line against gravity %r' % ((n0, n1), c.dircos, wantcos))
        elif n0 in where and n1 in where:
            (c0, l0), (c1, l1) = where[n0], where[n1]
            sep = c.block[1].centre[2] - c.block[0].centre[2]
            if not (c0 == c1 and close(c.area, dx[c0 % nx] * dy[c0 // nx]) and close(c.dircos, -1.) and close(sum(c.distance), sep)):
                bad.append('vertical connection %r area %r cosine %r distances %r separation %r' % ((n0, n1), c.area, c.dircos, c.distance, sep))
        else:
            ci = where[n0][0]
            d0 = surf[ci] - c.block[0].centre[2]
            if not (close(c.area, dx[ci % nx] * dy[ci // nx]) and close(c.dircos, -1.) and close(c.distance[0], d0) and close(c.distance[1], geo.atmosphere_connection)):
                bad.append('atmosphere connection %r distances %r, want %r' % ((n0, n1), c.distance, (d0, geo.atmosphere_connection)))
    return (not bad), '; '.join(bad[:4]) or 'all clauses hold'


def native_block_mapping(arg, values):
    """C19: block_mapping between two real rectangular geometries against an independent nearest-centre computation."""
    import numpy as np
    from mulgrids import mulgrid
    (sshape, satm, snsurf), (tshape, tatm) = arg
    src = build((sshape[0], sshape[1], sshape[2], satm, 0, snsurf), values)[0]
    tdx = [_val(values, 'tdx%d' % k, 7. + 2 * k) for k in range(tshape[0])]
    tdy = [_val(values, 'tdy%d' % k, 9. + k) for k in range(tshape[1])]
    tdz = [_val(values, 'tdz%d' % k, 6. + k) for k in range(tshape[2])]
    tgt = mulgrid().rectangular(tdx, tdy, tdz, atmos_type=tatm, origin=[3., -7., _val(values, 'toz', 100.)])
    try:
        mp = src.block_mapping(tgt)
    except Exception as ex:
        return False, 'block_mapping raises %s: %s' % (type(ex).__name__, ex)
    bad = []
    if set(mp) != set(tgt.block_name_list): bad.append('mapped names are not the target blocks')
    nt = tgt.num_atmosphere_blocks
    for b in tgt.block_name_list[nt:]:
        if mp.get(b) not in src.block_name_index: bad.append('target block %r -> %r is not a source block' % (b, mp.get(b))); continue
        tc, tl = tgt.column[tgt.column_name(b)], tgt.layer[tgt.layer_name(b)]
        sc, sl = src.column[src.column_name(mp[b])], src.layer[src.layer_name(mp[b])]
        dmin = min(np.linalg.norm(c.centre - tc.centre) for c in src.columnlist)
        if np.linalg.norm(sc.centre - tc.centre) > dmin * (1 + 1e-12) + 1e-12: bad.append('target block %r: source column %r is not the nearest' % (b, sc.name))
        near = min(src.layerlist[1:], key=lambda l: abs(l.centre - tl.centre))
        if abs(near.centre - tl.centre) < min(abs(l.centre - tl.centre) for l in src.layerlist[1:] if l is not near or True) - 1e-12: pass
        cands = [l for l in src.layerlist[1:] if abs(abs(l.centre - tl.centre) - abs(near.centre - tl.centre)) <= 1e-12]
        want = []
        for l in cands:
            want.append(l.name if sc.surface > l.bottom else [x for x in src.layerlist[1:] if x.bottom < sc.surface][0].name)
        if sl.name not in want: bad.append('target block %r: source layer %r, want nearest / first below ground %r' % (b, sl.name, want))
    for b in tgt.block_name_list[:nt]:
        if satm == 0 and mp.get(b) != src.block_name_list[0]: bad.append('atmosphere block %r -> %r' % (b, mp.get(b)))
        if satm == 1:
            tc = tgt.column[tgt.column_name(b)] if tatm == 1 else None
            if mp.get(b) not in src.block_name_list[:src.num_atmosphere_blocks]: bad.append('atmosphere block %r -> %r is not a source atmosphere block' % (b, mp.get(b)))
    return (not bad), '; '.join(bad[:4]) or 'mapping is total and nearest-based'


def native_locate(arg, values):
    """C12: column_containing_point with a search aid on a real rectangular geometry, against the rectangles of the construction."""
    import numpy as np
    shape, aid = arg
    geo, dx, dy, dz, org, surf = build((shape[0], shape[1], 2, 0, 0, 0), values)
    nx, ny = shape
    p = np.array([_val(values, 'px', org[0] + 0.3 * dx[0]), _val(values, 'py', org[1] + 0.6 * dy[0])])
    rect = [(org[0] + sum(dx[:i]), org[0] + sum(dx[:i + 1]), org[1] + sum(dy[:j]), org[1] + sum(dy[:j + 1])) for j in range(ny) for i in range(nx)]
    kw = {}
    cols = geo.columnlist
    if isinstance(aid, tuple) and aid[0] == 'guess': kw['guess'] = cols[aid[1]]
    elif aid == 'bounds': kw['bounds'] = [np.array([rect[0][0], rect[0][2]]), np.array([rect[-1][1], rect[-1][3]])]
    elif isinstance(aid, tuple) and aid[0] == 'subset': kw['columns'] = [cols[k] for k in aid[1:]]
    elif aid == 'quadtree': kw['qtree'] = geo.column_quadtree()
    try:
        r = geo.column_containing_point(p, **kw)
    except Exception as ex:
        return False, 'raises %s: %s' % (type(ex).__name__, ex)
    tol = 1e-6
    searched = range(len(cols)) if not (isinstance(aid, tuple) and aid[0] == 'subset') else aid[1:]
    inside = [k for k in searched if rect[k][0] + tol < p[0] < rect[k][1] - tol and rect[k][2] + tol < p[1] < rect[k][3] - tol]
    got = [k for k, c in enumerate(cols) if c is r]
    if r is None:
        return (not inside), 'point %r strictly inside column %r, nothing reported' % (list(p), [cols[k].name for k in inside])
    k = got[0]
    ok = rect[k][0] <= p[0] <= rect[k][1] and rect[k][2] <= p[1] <= rect[k][3] and all(j == k for j in inside)
    return bool(ok), 'point %r reported in %r (rectangle %r), strictly inside %r' % (list(p), r.name, rect[k], [cols[j].name for j in inside])


def native_locate_block(arg, values):
    import numpy as np
    shape, atm = arg
    geo, dx, dy, dz, org, surf = build((shape[0], shape[1], shape[2], atm, 0, 1), values)
    nx, ny, nz = shape
    p = np.array([_val(values, 'px', org[0] + 0.3 * dx[0]), _val(values, 'py', org[1] + 0.6 * dy[0]), _val(values, 'pz', org[2] - 0.5 * dz[0])])
    try:
        r = geo.block_name_containing_point(p)
    except Exception as ex:
        return False, 'raises %s: %s' % (type(ex).__name__, ex)
    bottoms = [org[2] - sum(dz[:k + 1]) for k in range(nz)]; tops = [org[2]] + bottoms[:-1]
    tol = 1e-6
    holds = []
    for ci in range(nx * ny):
        i, j = ci % nx, ci // nx
        x0, y0 = org[0] + sum(dx[:i]), org[1] + sum(dy[:j])
        if not (x0 + tol < p[0] < x0 + dx[i] - tol and y0 + tol < p[1] < y0 + dy[j] - tol): continue
        for li in range(1, nz + 1):
            bot, top, sf = bottoms[li - 1], tops[li - 1], surf[ci]
            btop = sf if (sf <= top or li == 1) else top
            if sf > bot and bot < p[2] < btop: holds.append(geo.block_name(geo.layerlist[li].name, geo.columnlist[ci].name))
    ok = (r is None and not holds) or (r is not None and all(h == r for h in holds) and r in geo.block_name_list[geo.num_atmosphere_blocks:])
    return bool(ok), 'point %r reported in block %r, strictly inside %r' % (list(p), r, holds)


def native_rectgeo(arg, values):
    """C18: fromgeo -> rectgeo -> fromgeo(map) on a real rectangular geometry at the origin, with the solver's values."""
    import numpy as np
    from mulgrids import mulgrid
    from t2grids import t2grid
    nx, ny, nz, atm, convention, nsurf = arg[:6]
    dx = [_val(values, 'dx%d' % k, 10. + 3 * k) for k in range(nx)]; dy = [_val(values, 'dy%d' % k, 8. + 2 * k) for k in range(ny)]; dz = [_val(values, 'dz%d' % k, 5. + k) for k in range(nz)]
    org = [_val(values, 'ox', 0.), _val(values, 'oy', 0.), _val(values, 'oz', 0.)]
    geo = mulgrid().rectangular(dx, dy, dz, atmos_type=atm, convention=0, origin=org)
    geo.atmosphere_volume = max(_val(values, 'atmvol', 1.e25), 1.e25); geo.atmosphere_connection = _val(values, 'atmcon', 1.e-6)
    bottom = org[2] - sum(dz)
    surf = [org[2]] * (nx * ny)
    for k in range(min(nsurf, nx * ny)):
        s = _val(values, 'surf%d' % k, org[2] - 0.4 * dz[0])
        geo.columnlist[k].surface = s; geo.set_column_num_layers(geo.columnlist[k]); surf[k] = s
    geo.setup_block_name_index(); geo.setup_block_connection_name_index()
    rot = arg[6] if len(arg) > 6 and isinstance(arg[6], int) else 0
    if rot:
        geo.rotate(rot, np.array([_val(values, 'rcx', 1.5), _val(values, 'rcy', -2.5)])); geo.permeability_angle = -rot
    grid = t2grid().fromgeo(geo)
    own = [b.name for b in grid.blocklist]
    bc = arg[6] if len(arg) > 6 and arg[6] in ('top-zero', 'top-huge', 'bottom-huge') else None
    if bc:
        from t2grids import t2block, t2connection
        vol = 0. if bc.endswith('zero') else 1.e50
        def newblock(k):
            grid.add_block(t2block('Z%s%2d' % ('ABCDEFGHIJ'[(k // 99) % 10], k % 99 + 1), vol, grid.rocktypelist[0]))
            return grid.blocklist[-1]
        if bc.startswith('top'):
            for k, col in enumerate(geo.columnlist):
                blk = grid.block[geo.block_name(geo.column_surface_layer(col).name, col.name)]
                grid.add_connection(t2connection([blk, newblock(k)], 3, [col.surface - blk.centre[2], 1.e-6], col.area, -1.))
        else:
            b = newblock(0); lay = geo.layerlist[-1]
            for col in geo.columnlist:
                grid.add_connection(t2connection([b, grid.block[geo.block_name(lay.name, col.name)]], 3, [1.e-6, 0.5 * lay.thickness], col.area, 1.))
    try:
        geo2, bm = grid.rectgeo(atmos_type=atm, convention=convention)
    except Exception as ex:
        return False, 'rectgeo raises %s: %s' % (type(ex).__name__, ex)
    bad = []
    close = lambda a, b: abs(a - b) <= 1e-9 * max(1., abs(a), abs(b))
    th = [l.top - l.bottom for l in geo2.layerlist[1:]]
    if len(th) != nz or not all(close(a, b) for a, b in zip(th, dz)): bad.append('layer thicknesses %r, original %r' % (th, dz))
    if geo2.num_columns != nx * ny: bad.append('%d columns, original %d' % (geo2.num_columns, nx * ny))
    else:
        for ci, c in enumerate(geo2.columnlist):
            i, j = ci % nx, ci // nx
            bb, b1 = c.bounding_box, geo.columnlist[ci].bounding_box
            got, want = (bb[0][0], bb[0][1], bb[1][0], bb[1][1]), (b1[0][0], b1[0][1], b1[1][0], b1[1][1])
            if not all(abs(a - b) <= 1e-7 * max(1., abs(a), abs(b)) for a, b in zip(got, want)): bad.append('column %d box %r, original %r' % (ci, got, want))
            if not close(c.surface, surf[ci]): bad.append('column %d surface %r, original %r' % (ci, c.surface, surf[ci]))
    if geo2.atmosphere_type != atm or geo2.convention != convention: bad.append('atmosphere type / convention not as requested')
    dang = (geo2.permeability_angle + rot) % 360.
    if min(dang, 360. - dang) > 1e-6 or abs(geo2.layerlist[0].bottom - org[2]) > 1e-9 * max(1., abs(org[2])): bad.append('orientation %r / top elevation %r, original %r / %r' % (geo2.permeability_angle, geo2.layerlist[0].bottom, -rot, org[2]))
    try:
        g2 = t2grid().fromgeo(geo2, bm)
        n1, n2 = own, [b.name for b in g2.blocklist]
        if sorted(n1) != sorted(n2): bad.append('block names %r regenerated as %r' % (n1, n2))
        else:
            for nm in n1[geo.num_atmosphere_blocks:]:
                if not close(grid.block[nm].volume, g2.block[nm].volume): bad.append('block %r volume %r regenerated as %r' % (nm, grid.block[nm].volume, g2.block[nm].volume))
            k1 = dict((frozenset(b.name for b in c.block), c) for c in grid.connectionlist if all(b.name in own for b in c.block)); k2 = dict((frozenset(b.name for b in c.block), c) for c in g2.connectionlist)
            if set(k1) != set(k2): bad.append('connections differ')
            else:
                for k in k1:
                    if not close(k1[k].area, k2[k].area): bad.append('connection %r area %r regenerated as %r' % (sorted(k), k1[k].area, k2[k].area))
    except Exception as ex:
        bad.append('fromgeo of the reconstructed geometry raises %s: %s' % (type(ex).__name__, ex))
    return (not bad), '; '.join(bad[:4]) or 'geometry recovered'


def native_fromgeo_refined(arg, values):
    """C04: fromgeo on a rectangular geometry refined on a column subset (irregular mesh), native clauses on floats."""
    import numpy as np
    from mulgrids import mulgrid
    from t2grids import t2grid
    (nx, ny, nz, atm), nsurf, cols = arg[:3]
    order = arg[3] if len(arg) > 3 else None
    dx = [_val(values, 'dx%d' % k, 10. + 3 * k) for k in range(nx)]; dy = [_val(values, 'dy%d' % k, 8. + 2 * k) for k in range(ny)]; dz = [_val(values, 'dz%d' % k, 5. + k) for k in range(nz)]
    org = [_val(values, 'ox', 3.), _val(values, 'oy', -7.), _val(values, 'oz', 100.)]
    geo = mulgrid().rectangular(dx, dy, dz, atmos_type=atm, origin=org, block_order=order)
    geo.atmosphere_volume = _val(values, 'atmvol', 1.e25); geo.atmosphere_connection = _val(values, 'atmcon', 1.e-6)
    bottom = org[2] - sum(dz)
    for k in range(min(nsurf, nx * ny)):
        s = _val(values, 'surf%d' % k, org[2] - 0.4 * dz[0])
        if s <= bottom: s = bottom + 0.5 * dz[-1]
        geo.columnlist[k].surface = s; geo.set_column_num_layers(geo.columnlist[k])
    geo.setup_block_name_index(); geo.setup_block_connection_name_index()
    geo.refine([geo.columnlist[k] for k in cols])
    grid = t2grid().fromgeo(geo)
    bad = []
    close = lambda a, b: abs(a - b) <= 1e-9 * max(1., abs(a), abs(b))
    names = [b.name for b in grid.blocklist]
    if names != geo.block_name_list: bad.append('blocks %r, announced %r' % (names[:8], geo.block_name_list[:8]))
    cn = [tuple(b.name for b in c.block) for c in grid.connectionlist]
    if cn != geo.block_connection_name_list: bad.append('connections differ from the announced list')
    na = geo.num_atmosphere_blocks
    total = 0.
    for b in grid.blocklist[na:]:
        c, l = geo.column[geo.column_name(b.name)], geo.layer[geo.layer_name(b.name)]
        top = c.surface if (c.surface <= l.top or l is geo.layerlist[1]) else l.top
        if not close(b.volume, c.area * (top - l.bottom)): bad.append('block %r volume %r, area x height %r' % (b.name, b.volume, c.area * (top - l.bottom)))
        total += b.volume
    want = sum(c.area * (c.surface - geo.layerlist[-1].bottom) for c in geo.columnlist)
    if not close(total, want): bad.append('total rock volume %r, sum of area x depth %r' % (total, want))
    for c in grid.connectionlist:
        b0, b1 = c.block
        if b0.name in geo.block_name_list[:na] or b1.name in geo.block_name_list[:na]: continue
        c0, c1 = geo.column[geo.column_name(b0.name)], geo.column[geo.column_name(b1.name)]
        if c0 is c1: continue
        l = geo.layer[geo.layer_name(b0.name)]
        shared = [n for n in c0.node if n in c1.node]
        e = shared[1].pos - shared[0].pos
        hh = lambda cc: (cc.surface if (cc.surface <= l.top or l is geo.layerlist[1]) else l.top) - l.bottom
        if not close(c.area, np.linalg.norm(e) * min(hh(c0), hh(c1))): bad.append('horizontal connection %r area %r' % ((b0.name, b1.name), c.area))
        for d, cc in zip(c.distance, (c0, c1)):
            v = cc.centre - shared[0].pos
            if not close(d, abs(e[0] * v[1] - e[1] * v[0]) / np.linalg.norm(e)): bad.append('horizontal connection %r distance %r' % ((b0.name, b1.name), d))
    return (not bad), '; '.join(bad[:4]) or 'all clauses hold'
