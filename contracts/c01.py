"""C01 - record-layer obligations on the real t2data section writers / readers: a list is cut
into 4- or 8-value records that tile it, and the reader rebuilds exactly the list.

The file objects are replaced by a *record tape*: write_values / write_value_line / write
append records, read_values / read_value_line / readline / parse_string consume them (the
field layer - what a record looks like as text - is C02's subject).  List contents are
symbolic; list lengths run over 0..17 (both sides of every 4- and 8-per-line boundary)."""
import z3
from pyvc.engine import Obj, NVec, Builtin
from pyvc import library as L
from pyvc.values import PyExc, Unsupported

FUNCS = ['t2data.trim_trailing_nones', 't2data.t2data.write_timesteps', 't2data.t2data.read_timesteps',
         't2data.t2data.write_times', 't2data.t2data.read_times', 't2data.t2data.write_selection', 't2data.t2data.read_selection',
         't2data.t2data.write_generator', 't2data.t2data.read_generator', 't2data.t2data.write_meshmaker_rz2d',
         't2data.t2data.read_meshmaker_rz2d', 't2data.t2data.write_meshmaker_xyz', 't2data.t2data.read_meshmaker_xyz',
         't2data.t2data.section_insertion_index', 't2data.t2data.insert_section']
LENGTHS = list(range(0, 18))


class Tape(object):
    def __init__(self, e, spec):
        self.e, self.spec, self.recs, self.pos, self.errors = e, spec, [], 0, []
        o = Obj(None)
        o.fields.update(
            write=Builtin('write', lambda eng, s: self.recs.append(('raw', s))),
            write_values=Builtin('write_values', lambda eng, vals, kind: self.recs.append(('rec', kind, list(eng.iterate(vals))))),
            write_value_line=Builtin('write_value_line', self._write_value_line),
            read_values=Builtin('read_values', self._read_values),
            read_value_line=Builtin('read_value_line', self._read_value_line),
            readline=Builtin('readline', self._readline),
            parse_string=Builtin('parse_string', self._parse_string),
            close=Builtin('close', lambda eng: None))
        self.obj = o
        self.lines = None

    def _write_value_line(self, eng, d, kind):
        names = self.spec[kind][0]
        self.recs.append(('rec', kind, [d.get(n) if isinstance(d, dict) and n in d else None for n in names]))

    def _next(self):
        # raw text is handed out line by line
        if self.lines is None or self.lines[0] is not self.recs:
            flat = []
            for r in self.recs:
                if r[0] == 'raw':
                    parts = r[1].split('\n')
                    flat += [('raw', x + '\n') for x in parts[:-1]] + ([('raw', parts[-1])] if parts[-1] else [])
                else:
                    flat.append(r)
            self.lines = (self.recs, flat, len(self.recs))
        if self.lines[2] != len(self.recs):
            self.lines = None
            return self._next()
        flat = self.lines[1]
        if self.pos >= len(flat):
            return ('raw', '')
        r = flat[self.pos]
        self.pos += 1
        return r

    def _read_values(self, eng, kind):
        r = self._next()
        if r[0] != 'rec' or r[1] != kind:
            self.errors.append('reader expects a %r record, tape holds %r' % (kind, r[:2]))
            return [None] * len(self.spec[kind][1])
        vals = list(r[2])
        return vals + [None] * (len(self.spec[kind][1]) - len(vals))     # fields beyond the written ones are blank

    def _read_value_line(self, eng, d, kind):
        vals = self._read_values(eng, kind)
        for n, v in zip(self.spec[kind][0], vals):
            if v is not None:
                d[n] = v

    def _readline(self, eng):
        r = self._next()
        if r[0] == 'raw':
            return r[1]
        # a record handed over as a line (to be parsed with parse_string): a token that behaves like a
        # non-blank line that starts with no keyword
        tok = Obj(None)
        tok.fields.update(record=r, strip=Builtin('strip', lambda eng: 'x'), startswith=Builtin('startswith', lambda eng, s: False),
                          ljust=Builtin('ljust', lambda eng, n: tok), rstrip=Builtin('rstrip', lambda eng, *a: tok))
        return tok

    def _parse_string(self, eng, line, kind):
        if isinstance(line, Obj) and 'record' in line.fields:
            r = line.fields['record']
            names_w, names_r = self.spec[r[1]][0], self.spec[kind][0]
            fm_w, fm_r = self.spec[r[1]][1], self.spec[kind][1]
            if r[1] != kind and fm_w[:len(fm_r)] != fm_r[:len(fm_w)][:len(fm_r)] and fm_r[:len(fm_w)] != fm_w:
                self.errors.append('line written as %r parsed as %r (different column layout)' % (r[1], kind))
            vals = list(r[2])
            return (vals + [None] * len(fm_r))[:len(fm_r)]
        return [None] * len(self.spec[kind][1])

    def rewind(self):
        self.pos = 0


def _t2data(e):
    m = e.load_module('t2data')
    d = Obj(m.globals['t2data'])
    d.fields.update(parameter={'const_timestep': 0, 'timestep': []}, output_times={}, selection={}, meshmaker=[],
                    type='AUTOUGH2', multi={}, diffusion=[])
    return d, m.globals['t2data_format_specification']


def _check_tiling(e, tape, kind, X, K, name):
    recs = [r for r in tape.recs if r[0] == 'rec' and r[1] == kind]
    n = len(X)
    want = -(-n // K)
    e.prove(len(recs) == want, 'post:%s_record_count_is_ceil_n_over_%d' % (name, K))
    flat = []
    for r in recs:
        flat += r[2]
    ok = all(len(r[2]) == K for r in recs) and len(flat) >= n and all(L.equals(e, a, b) is True for a, b in zip(flat, X)) and all(v is None for v in flat[n:])
    e.prove(ok, 'post:%s_records_tile_the_list_with_blank_padding' % name)


def p_timesteps(e, n):
    def prog(e):
        d, spec = _t2data(e)
        X = [e.sym_real('dt%d' % k) for k in range(n)]
        nlines = -(-n // 8)
        d.fields['parameter'] = {'const_timestep': -nlines if n else 0, 'timestep': list(X)}
        tape = Tape(e, spec)
        e.call(e.get_function('t2data.t2data.write_timesteps'), [d, tape.obj])
        if n:
            _check_tiling(e, tape, 'timestep', X, 8, 'timesteps[n=%d]' % n)
            d2, _ = _t2data(e)
            d2.fields['parameter'] = {'const_timestep': -nlines, 'timestep': []}
            tape.rewind()
            e.call(e.get_function('t2data.t2data.read_timesteps'), [d2, tape.obj])
            e.prove(L.equals(e, d2.fields['parameter']['timestep'], X) is True and not tape.errors, 'post:timesteps_read_back[n=%d]' % n)
        else:
            e.prove(len(tape.recs) == 0, 'post:timesteps_records_tile_the_list_with_blank_padding[n=0]')
    e.explore(prog, 'timesteps')


def p_times(e, n):
    def prog(e):
        d, spec = _t2data(e)
        X = [e.sym_real('t%d' % k) for k in range(n)]
        if n == 0:
            e.call(e.get_function('t2data.t2data.write_times'), [d, Tape(e, spec).obj])
            e.prove(True, 'post:times_empty_section_not_written')
            return
        d.fields['output_times'] = {'num_times_specified': n, 'num_times': n, 'max_timestep': None, 'time_increment': None, 'time': list(X)}
        tape = Tape(e, spec)
        e.call(e.get_function('t2data.t2data.write_times'), [d, tape.obj])
        e.prove(tape.recs[0] == ('raw', 'TIMES\n'), 'post:times_keyword_first')
        _check_tiling(e, tape, 'output_times2', X, 8, 'times[n=%d]' % n)
        d2, _ = _t2data(e)
        tape.rewind(); tape.pos = 1
        e.call(e.get_function('t2data.t2data.read_times'), [d2, tape.obj])
        ot = d2.fields['output_times']
        e.prove(L.equals(e, ot.get('time'), X) is True and ot.get('num_times_specified') == n and not tape.errors and tape.pos == len(tape.recs),
                'post:times_read_back[n=%d]' % n)
    e.explore(prog, 'times')


def p_selection(e, n):
    def prog(e):
        d, spec = _t2data(e)
        X = [e.sym_real('f%d' % k) for k in range(n)]
        nlines = -(-n // 8)
        ints = [nlines] + [e.sym_int('i%d' % k) for k in range(15)]
        d.fields['selection'] = {'integer': list(ints), 'float': list(X)}
        tape = Tape(e, spec)
        e.call(e.get_function('t2data.t2data.write_selection'), [d, tape.obj])
        _check_tiling(e, tape, 'selec2', X, 8, 'selection[n=%d]' % n)
        d2, _ = _t2data(e)
        tape.rewind(); tape.pos = 1
        e.call(e.get_function('t2data.t2data.read_selection'), [d2, tape.obj])
        got = d2.fields['selection']
        pad = [None] * (nlines * 8 - n)
        e.prove(L.equals(e, got.get('integer'), ints) is True and L.equals(e, got.get('float'), X + pad) is True and not tape.errors,
                'post:selection_read_back_up_to_blank_padding[n=%d]' % n)
    e.explore(prog, 'selection')


def p_generator(e, arg):
    n, enth = arg
    tag = '[n=%d,%s]' % (n, 'enthalpy' if enth else 'no-enthalpy')
    def prog(e):
        d, spec = _t2data(e)
        m = e.load_module('t2data')
        T = [e.sym_real('time%d' % k) for k in range(n)]
        R = [e.sym_real('rate%d' % k) for k in range(n)]
        H = [e.sym_real('enth%d' % k) for k in range(n)] if enth else []
        gen = e.call(m.globals['t2generator'], [], {'name': 'gen 1', 'block': '  a 1', 'type': 'MASS', 'ltab': n, 'itab': 'E' if enth else '',
                                                     'gx': e.sym_real('gx'), 'ex': e.sym_real('ex'), 'time': list(T), 'rate': list(R), 'enthalpy': list(H)})
        tape = Tape(e, spec)
        e.call(e.get_function('t2data.t2data.write_generator'), [d, gen, tape.obj])
        if n > 1:
            _check_tiling(e, tape, 'generation_times', T, 4, 'generator_times' + tag)
            _check_tiling(e, tape, 'generation_rates', R, 4, 'generator_rates' + tag)
            if enth:
                _check_tiling(e, tape, 'generation_enthalpy', H, 4, 'generator_enthalpy' + tag)
            else:
                e.prove(not [r for r in tape.recs if r[1] == 'generation_enthalpy'], 'post:no_enthalpy_records_without_enthalpy' + tag)
        else:
            e.prove(len(tape.recs) == 1, 'post:single_value_generator_has_no_table' + tag)
        d2, _ = _t2data(e)
        tape.rewind()
        line = tape._readline(e)
        try:
            g2 = e.call(e.get_function('t2data.t2data.read_generator'), [d2, line, tape.obj])
        except PyExc as ex:
            e.fail('post:generator_read_back' + tag, 'raises %s' % ex.cls)
            return
        f = g2.fields
        ok = f['name'] == 'gen 1' and f['block'] == '  a 1' and f['type'] == 'MASS' and not tape.errors and tape.pos == len(tape.recs)
        if n > 1:
            ok = ok and L.equals(e, list(e.iterate(f['time'])), T) is True and L.equals(e, list(e.iterate(f['rate'])), R) is True and \
                L.equals(e, list(e.iterate(f['enthalpy'])), H) is True
        e.prove(ok, 'post:generator_read_back' + tag)
    e.explore(prog, 'generator')


def p_rz2d(e, arg):
    nrad, nlay = arg
    tag = '[radii=%d,layers=%d]' % (nrad, nlay)
    def prog(e):
        d, spec = _t2data(e)
        Rr = [e.sym_real('r%d' % k) for k in range(nrad)]
        Ly = [e.sym_real('h%d' % k) for k in range(nlay)]
        section = []
        if nrad:
            section.append(('radii', {'radii': list(Rr)}))
        section.append(('layer', {'layer': list(Ly)}))
        tape = Tape(e, spec)
        try:
            e.call(e.get_function('t2data.t2data.write_meshmaker_rz2d'), [d, section, tape.obj])
        except PyExc as ex:
            e.fail('safety:write_meshmaker_rz2d' + tag, 'raises %s: %s' % (ex.cls, ex.msg))
            return
        if nrad:
            _check_tiling(e, tape, 'radii2', Rr, 8, 'rz2d_radii' + tag)
        _check_tiling(e, tape, 'layer2', Ly, 8, 'rz2d_layers' + tag)
        d2, _ = _t2data(e)
        tape.rewind(); tape.pos = 1
        e.call(e.get_function('t2data.t2data.read_meshmaker_rz2d'), [d2, tape.obj])
        mm = d2.fields['meshmaker']
        ok = len(mm) == 1 and mm[0][0] == 'rz2d' and not tape.errors
        if ok:
            subs = dict(mm[0][1])
            ok = L.equals(e, subs.get('layer', {}).get('layer'), Ly) is True and (not nrad or L.equals(e, subs.get('radii', {}).get('radii'), Rr) is True)
        e.prove(ok, 'post:rz2d_read_back' + tag)
    e.explore(prog, 'rz2d')


def p_trim(e, n):
    def prog(e):
        f = e.get_function('t2data.trim_trailing_nones')
        import itertools
        ok = True
        for mask in itertools.product([False, True], repeat=n):
            vals = [(k + 1 if present else None) for k, present in enumerate(mask)]
            want = list(vals)
            while want and want[-1] is None:
                want.pop()
            got = e.call(f, [list(vals)])
            ok = ok and got == want
        e.prove(ok, 'post:trim_trailing_nones_keeps_longest_prefix_not_ending_in_None[n=%d]' % n)
    e.explore(prog, 'trim')


def p_section_order(e, _a=None):
    """insert_section keeps _sections a subsequence of the canonical section order when it
    was one (all 2^k subsets for each inserted keyword would be 23 * 2^22 cases: checked for
    every subset of a 10-keyword window around the inserted keyword)."""
    def prog(e):
        import itertools
        m = e.load_module('t2data')
        order = m.globals['t2data_sections']
        ok = True
        bad = None
        for ki, kw in enumerate(order):
            lo, hi = max(0, ki - 5), min(len(order), ki + 6)
            window = [s for s in order[lo:hi] if s != kw]
            for r in range(len(window) + 1):
                for sub in itertools.combinations(window, r):
                    d = Obj(m.globals['t2data'])
                    d.fields['_sections'] = list(sub)
                    e.call(e.get_function('t2data.t2data.insert_section'), [d, kw])
                    got = d.fields['_sections']
                    want = [s for s in order if s in sub or s == kw]
                    if got != want:
                        ok, bad = False, (kw, sub, got)
        e.prove(ok, 'post:insert_section_keeps_canonical_order', )
        if not ok:
            e.fail('post:insert_section_keeps_canonical_order', 'inserting %r into %r gives %r' % bad)
    e.explore(prog, 'section_order')


def programs(tier):
    ps = [('p_timesteps', n) for n in LENGTHS] + [('p_times', n) for n in LENGTHS] + [('p_selection', n) for n in LENGTHS]
    ps += [('p_generator', (n, en)) for n in range(0, 14) for en in (False, True)]
    ps += [('p_rz2d', (a, b)) for a, b in [(0, 3), (0, 9), (8, 9), (9, 8), (3, 17), (17, 3), (1, 1), (8, 8), (16, 16), (12, 5)]]
    ps += [('p_trim', n) for n in range(0, 9)]
    ps += [('p_section_order', None)]
    return ps


def replay(obname, model, result):
    prog = result['program']
    if prog == 'p_rz2d':
        nrad, nlay = result['arg']
        return ("import os, tempfile, shutil\nfrom t2data import *\n"
                "d = t2data(); tmp = tempfile.mkdtemp(dir='/var/tmp')\n"
                "sec = ([('radii', {'radii': [float(k + 1) for k in range(%d)]})] if %d else []) + [('layer', {'layer': [float(10 + k) for k in range(%d)]})]\n"
                "d.meshmaker = [('rz2d', sec)]\n"
                "try:\n"
                "    d.write(os.path.join(tmp, 'x.dat')); r = t2data(os.path.join(tmp, 'x.dat'))\n"
                "    ok = r.meshmaker == d.meshmaker; detail = 'wrote %%r, read %%r' %% (d.meshmaker, r.meshmaker)\n"
                "except Exception as e:\n"
                "    ok, detail = False, '%%s: %%s' %% (type(e).__name__, e)\n"
                "finally: shutil.rmtree(tmp)\n") % (nrad, nrad, nlay)
    if prog in ('p_timesteps', 'p_times', 'p_selection'):
        n = result['arg']
        return ("import os, tempfile, shutil, math\nfrom t2data import *\n"
                "n = %d; d = t2data(); tmp = tempfile.mkdtemp(dir='/var/tmp')\n"
                "X = [float(k + 1) for k in range(n)]\n"
                "d.parameter['const_timestep'] = -int(math.ceil(n / 8.)) if n else 1.0; d.parameter['timestep'] = list(X) if n else [1.0]\n"
                "if n: d.output_times = {'num_times_specified': n, 'num_times': n, 'time': list(X)}\n"
                "d.selection = {'integer': [int(math.ceil(n / 8.))] + [0] * 15, 'float': list(X)}\n"
                "try:\n"
                "    d.write(os.path.join(tmp, 'x.dat')); r = t2data(os.path.join(tmp, 'x.dat'))\n"
                "    ok = (not n or r.parameter['timestep'] == X) and (not n or r.output_times['time'] == X) and [v for v in r.selection['float'] if v is not None] == X\n"
                "    detail = 'timesteps %%r times %%r selec %%r' %% (r.parameter['timestep'], r.output_times.get('time'), r.selection['float'])\n"
                "except Exception as e:\n"
                "    ok, detail = False, '%%s: %%s' %% (type(e).__name__, e)\n"
                "finally: shutil.rmtree(tmp)\n") % n
    if prog == 'p_generator':
        n, enth = result['arg']
        return ("import os, tempfile, shutil\nfrom t2data import *\n"
                "n, enth = %d, %r; d = t2data(); tmp = tempfile.mkdtemp(dir='/var/tmp')\n"
                "d.grid.add_rocktype(rocktype()); d.grid.add_block(t2block('  a 1', 1.0, d.grid.rocktypelist[0]))\n"
                "T = [float(k) for k in range(n)]; R = [float(10 + k) for k in range(n)]; H = [float(100 + k) for k in range(n)] if enth else []\n"
                "d.add_generator(t2generator(name='gen 1', block='  a 1', type='MASS', ltab=n, itab='E' if enth else '', gx=1., ex=2., time=T, rate=R, enthalpy=H))\n"
                "try:\n"
                "    d.write(os.path.join(tmp, 'x.dat')); r = t2data(os.path.join(tmp, 'x.dat')); g = r.generatorlist[0]\n"
                "    ok = n <= 1 or (list(g.time) == T and list(g.rate) == R and list(g.enthalpy) == H)\n"
                "    detail = 'time %%r rate %%r enthalpy %%r' %% (g.time, g.rate, g.enthalpy)\n"
                "except Exception as e:\n"
                "    ok, detail = False, '%%s: %%s' %% (type(e).__name__, e)\n"
                "finally: shutil.rmtree(tmp)\n") % (n, enth)
    return None
