"""C01 - record-layer obligations on the real t2data section writers / readers: a list is cut
into 4- or 8-value records that tile it, and the reader rebuilds exactly the list.

The file objects are replaced by a *record tape*: write_values / write_value_line / write
append records, read_values / read_value_line / readline / parse_string consume them (the
field layer - what a record looks like as text - is C02's subject).  List contents are
symbolic; list lengths run over 0..17 (both sides of every 4- and 8-per-line boundary)."""
import z3
from pyvc.engine import Obj, NVec, Builtin
from pyvc import library as L
from pyvc.values import PyExc, Unsupported, to_int, to_real

FUNCS = ['t2data.t2data.write', 't2data.t2data.read', 't2data.t2data.read_meshfile', 't2data.t2data.write_extra_precision', 't2data.t2data.read_extra_precision',
         't2data.t2data.update_sections', 't2data.t2data.get_present_sections', 't2data.t2data.update_read_write_functions', 't2data.t2data.read_parameters', 't2data.t2data.write_parameters',
         't2data.t2data.read_rocktypes', 't2data.t2data.write_rocktypes', 't2data.t2data.read_blocks', 't2data.t2data.write_blocks', 't2data.t2data.read_connections', 't2data.t2data.write_connections',
         't2data.t2data.read_generators', 't2data.t2data.write_generators', 't2data.t2data.read_incons', 't2data.t2data.write_incons', 't2data.t2data.read_indom', 't2data.t2data.write_indom',
         't2data.t2data.read_short_output', 't2data.t2data.write_short_output', 't2data.t2data.read_history_blocks', 't2data.t2data.write_history_blocks',
         't2data.t2data.read_history_connections', 't2data.t2data.write_history_connections', 't2data.t2data.read_history_generators', 't2data.t2data.write_history_generators',
         't2data.t2data.read_meshmaker', 't2data.t2data.write_meshmaker', 't2data.t2data.read_diffusion', 't2data.t2data.write_diffusion', 't2data.t2data.read_multi', 't2data.t2data.write_multi',
         't2data.t2data.read_rpcap', 't2data.t2data.write_rpcap', 't2data.t2data.read_more_options', 't2data.t2data.write_more_options', 't2data.t2data.read_title', 't2data.t2data.write_title',
         't2data.t2data.read_simulator', 't2data.t2data.write_simulator', 't2data.trim_trailing_nones', 't2data.t2data.write_timesteps', 't2data.t2data.read_timesteps',
         't2data.t2data.write_times', 't2data.t2data.read_times', 't2data.t2data.write_selection', 't2data.t2data.read_selection',
         't2data.t2data.write_generator', 't2data.t2data.read_generator', 't2data.t2data.write_meshmaker_rz2d',
         't2data.t2data.read_meshmaker_rz2d', 't2data.t2data.write_meshmaker_xyz', 't2data.t2data.read_meshmaker_xyz',
         't2data.t2data.section_insertion_index', 't2data.t2data.insert_section']
LENGTHS = list(range(0, 18))


class Tape(object):
    def __init__(self, e, spec):
        self.e, self.spec, self.recs, self.pos, self.errors = e, spec, [], 0, []
        o = Obj(None)
        o.fields.update(
            write=Builtin('write', lambda eng, s: self.recs.append(('raw', s))),
            write_values=Builtin('write_values', lambda eng, vals, kind: self.recs.append(('rec', kind, list(eng.iterate(vals))))),
            write_value_line=Builtin('write_value_line', self._write_value_line),
            read_values=Builtin('read_values', self._read_values),
            read_value_line=Builtin('read_value_line', self._read_value_line),
            readline=Builtin('readline', self._readline),
            parse_string=Builtin('parse_string', self._parse_string),
            close=Builtin('close', lambda eng: None))
        self.obj = o
        self.lines = None
        self.ff = None

    def _write_value_line(self, eng, d, kind):
        names = self.spec[kind][0]
        self.recs.append(('rec', kind, [d.get(n) if isinstance(d, dict) and n in d else None for n in names]))

    def _next(self):
        # raw text is handed out line by line
        if self.lines is None or self.lines[0] is not self.recs:
            flat = []
            merged = []
            for r in self.recs:      # write('SHORT'); write('%2d' % n); write('\n') is one line
                if r[0] == 'raw' and merged and merged[-1][0] == 'raw' and isinstance(r[1], str) and isinstance(merged[-1][1], str) and not merged[-1][1].endswith('\n'):
                    merged[-1] = ('raw', merged[-1][1] + r[1])
                else:
                    merged.append(r)
            for r in merged:
                if r[0] == 'raw':
                    parts = r[1].split('\n')
                    flat += [('raw', x + '\n') for x in parts[:-1]] + ([('raw', parts[-1])] if parts[-1] else [])
                else:
                    flat.append(r)
            self.lines = (self.recs, flat, len(self.recs))
        if self.lines[2] != len(self.recs):
            self.lines = None
            return self._next()
        flat = self.lines[1]
        if self.pos >= len(flat):
            return ('raw', '')
        r = flat[self.pos]
        self.pos += 1
        return r

    # -- the read side: the contract of the field layer (C02) lifted to records -------------------
    def _ff(self):
        if self.ff is None:
            from contracts.c02 import make_fff
            self.ff = make_fff(self.e, self.spec)
        return self.ff

    def _fmt_str(self, v, fmt, w):
        """Text of a string field: the C02 contract of write_values_to_string for type 's'
        ('%<fmt>' % value, cut to the field width)."""
        if isinstance(v, Obj) and v.cls is not None:          # '%5s' % object: its __repr__ (rock type -> its name)
            rep = v.cls.lookup('__str__') or v.cls.lookup('__repr__')
            if rep is None:
                raise Unsupported('string field holds an object without __repr__')
            v = self.e.call(rep, [v])
        return (('%' + fmt) % v)[:w] if isinstance(v, str) else v

    def _as_kind(self, r, kind):
        """What parse_string(kind) returns for the line that write_values(r) produced: field by field,
        the value written in exactly those columns (blank -> None, string fields as their padded
        text); an error if the two layouts do not line up."""
        ls_w, ls_r = self._ff().fields['line_spec'][r[1]], self._ff().fields['line_spec'][kind]
        fm_w = self.spec[r[1]][1]
        vals = list(r[2]) + [None] * (len(ls_w) - len(r[2]))
        cols = dict((c, (k, t)) for k, (c, t) in enumerate(ls_w))
        end = ls_w[-1][0][1] if ls_w else 0
        out = []
        for (c, t) in ls_r:
            if t == 'x':
                out.append(None)
            elif c in cols:
                k, tw = cols[c]
                v = vals[k] if tw != 'x' else None
                if v is None:
                    out.append(' ' * (c[1] - c[0]) if t == 's' else None)
                elif (t == 's') != (tw == 's') or (t == 'd') != (tw == 'd'):
                    self.errors.append('field at columns %r written as %r (%s) read as %s of %r' % (c, r[1], tw, t, kind))
                    out.append(None)
                else:
                    out.append(self._fmt_str(v, fm_w[k], c[1] - c[0]) if t == 's' else v)
            elif c[0] >= end:
                out.append('' if t == 's' else None)        # beyond the end of the written line
            else:
                self.errors.append('line written as %r parsed as %r: no field at columns %r' % (r[1], kind, c))
                out.append(None)
        return out

    def _parse_raw(self, eng, text, kind):
        """A keyword / title / blank line met by a record reader: the real parse_string on the text."""
        if not isinstance(text, str):
            raise Unsupported('symbolic raw line parsed as a record')
        return eng.call(eng.get_function('fixed_format_file.fixed_format_file.parse_string'), [self._ff(), text, kind])

    def _read_values(self, eng, kind):
        r = self._next()
        if r[0] == 'raw':
            return self._parse_raw(eng, r[1], kind)
        return self._as_kind(r, kind)

    def _read_value_line(self, eng, d, kind):
        vals = self._read_values(eng, kind)
        for n, v in zip(self.spec[kind][0], vals):
            if v is not None:
                d[n] = v

    def _readline(self, eng):
        r = self._next()
        if r[0] == 'raw':
            return r[1]
        # a record handed over as a line (to be parsed with parse_string): a token that behaves like a
        # line that starts with no keyword, blank exactly when every field written is blank
        ls_w = self._ff().fields['line_spec'][r[1]]
        blank = all(v is None or t == 'x' or (isinstance(v, str) and not v.strip()) for v, (c, t) in zip(r[2], ls_w))
        tok = Obj(None)
        def cols(eng, lo, hi):
            # text of columns [lo, hi) of the line: exact where it lies in one concrete string field (or blank ones),
            # otherwise characters of a number - never a keyword (digits, sign, point, lower-case e, blanks)
            lo, hi = lo or 0, (hi if hi is not None else 80)
            out = ''
            for v, (c, t), fm in zip(list(r[2]) + [None] * len(ls_w), ls_w, self.spec[r[1]][1]):
                a, b = max(lo, c[0]), min(hi, c[1])
                if a >= b:
                    continue
                if v is None or t == 'x':
                    out += ' ' * (b - a)
                elif t == 's' and isinstance(self._fmt_str(v, fm, c[1] - c[0]), str):
                    out += self._fmt_str(v, fm, c[1] - c[0]).ljust(c[1] - c[0])[a - c[0]: b - c[0]]
                else:
                    out += '#' * (b - a)
            return out
        tok.fields['__getslice__'] = Builtin('line[a:b]', cols)
        tok.fields.update(record=r, strip=Builtin('strip', lambda eng: '' if blank else 'x'), startswith=Builtin('startswith', lambda eng, s: False),
                          ljust=Builtin('ljust', lambda eng, n: tok), rstrip=Builtin('rstrip', lambda eng, *a: tok))
        return tok

    def _parse_string(self, eng, line, kind):
        if isinstance(line, Obj) and 'record' in line.fields:
            return self._as_kind(line.fields['record'], kind)
        return self._parse_raw(eng, line, kind)

    def rewind(self):
        self.pos = 0


def _t2data(e):
    m = e.load_module('t2data')
    d = Obj(m.globals['t2data'])
    d.fields.update(parameter={'const_timestep': 0, 'timestep': []}, output_times={}, selection={}, meshmaker=[],
                    type='AUTOUGH2', multi={}, diffusion=[])
    return d, m.globals['t2data_format_specification']


def _check_tiling(e, tape, kind, X, K, name):
    recs = [r for r in tape.recs if r[0] == 'rec' and r[1] == kind]
    n = len(X)
    want = -(-n // K)
    e.prove(len(recs) == want, 'post:%s_record_count_is_ceil_n_over_%d' % (name, K))
    flat = []
    for r in recs:
        flat += r[2]
    ok = all(len(r[2]) == K for r in recs) and len(flat) >= n and all(L.equals(e, a, b) is True for a, b in zip(flat, X)) and all(v is None for v in flat[n:])
    e.prove(ok, 'post:%s_records_tile_the_list_with_blank_padding' % name)


def p_timesteps(e, n):
    def prog(e):
        d, spec = _t2data(e)
        X = [e.sym_real('dt%d' % k) for k in range(n)]
        nlines = -(-n // 8)
        d.fields['parameter'] = {'const_timestep': -nlines if n else 0, 'timestep': list(X)}
        tape = Tape(e, spec)
        e.call(e.get_function('t2data.t2data.write_timesteps'), [d, tape.obj])
        if n:
            _check_tiling(e, tape, 'timestep', X, 8, 'timesteps[n=%d]' % n)
            d2, _ = _t2data(e)
            d2.fields['parameter'] = {'const_timestep': -nlines, 'timestep': []}
            tape.rewind()
            e.call(e.get_function('t2data.t2data.read_timesteps'), [d2, tape.obj])
            e.prove(L.equals(e, d2.fields['parameter']['timestep'], X) is True and not tape.errors, 'post:timesteps_read_back[n=%d]' % n)
        else:
            e.prove(len(tape.recs) == 0, 'post:timesteps_records_tile_the_list_with_blank_padding[n=0]')
    e.explore(prog, 'timesteps')


def p_times(e, n):
    def prog(e):
        d, spec = _t2data(e)
        X = [e.sym_real('t%d' % k) for k in range(n)]
        if n == 0:
            e.call(e.get_function('t2data.t2data.write_times'), [d, Tape(e, spec).obj])
            e.prove(True, 'post:times_empty_section_not_written')
            return
        d.fields['output_times'] = {'num_times_specified': n, 'num_times': n, 'max_timestep': None, 'time_increment': None, 'time': list(X)}
        tape = Tape(e, spec)
        e.call(e.get_function('t2data.t2data.write_times'), [d, tape.obj])
        e.prove(tape.recs[0] == ('raw', 'TIMES\n'), 'post:times_keyword_first')
        _check_tiling(e, tape, 'output_times2', X, 8, 'times[n=%d]' % n)
        d2, _ = _t2data(e)
        tape.rewind(); tape.pos = 1
        e.call(e.get_function('t2data.t2data.read_times'), [d2, tape.obj])
        ot = d2.fields['output_times']
        e.prove(L.equals(e, ot.get('time'), X) is True and ot.get('num_times_specified') == n and not tape.errors and tape.pos == len(tape.recs),
                'post:times_read_back[n=%d]' % n)
    e.explore(prog, 'times')


def p_selection(e, n):
    def prog(e):
        d, spec = _t2data(e)
        X = [e.sym_real('f%d' % k) for k in range(n)]
        nlines = -(-n // 8)
        ints = [nlines] + [e.sym_int('i%d' % k) for k in range(15)]
        d.fields['selection'] = {'integer': list(ints), 'float': list(X)}
        tape = Tape(e, spec)
        e.call(e.get_function('t2data.t2data.write_selection'), [d, tape.obj])
        _check_tiling(e, tape, 'selec2', X, 8, 'selection[n=%d]' % n)
        d2, _ = _t2data(e)
        tape.rewind(); tape.pos = 1
        e.call(e.get_function('t2data.t2data.read_selection'), [d2, tape.obj])
        got = d2.fields['selection']
        pad = [None] * (nlines * 8 - n)
        e.prove(L.equals(e, got.get('integer'), ints) is True and L.equals(e, got.get('float'), X + pad) is True and not tape.errors,
                'post:selection_read_back_up_to_blank_padding[n=%d]' % n)
    e.explore(prog, 'selection')


def p_generator(e, arg):
    n, enth = arg
    tag = '[n=%d,%s]' % (n, 'enthalpy' if enth else 'no-enthalpy')
    def prog(e):
        d, spec = _t2data(e)
        m = e.load_module('t2data')
        T = [e.sym_real('time%d' % k) for k in range(n)]
        R = [e.sym_real('rate%d' % k) for k in range(n)]
        H = [e.sym_real('enth%d' % k) for k in range(n)] if enth else []
        gen = e.call(m.globals['t2generator'], [], {'name': 'gen 1', 'block': '  a 1', 'type': 'MASS', 'ltab': n, 'itab': 'E' if enth else '',
                                                     'gx': e.sym_real('gx'), 'ex': e.sym_real('ex'), 'time': list(T), 'rate': list(R), 'enthalpy': list(H)})
        tape = Tape(e, spec)
        e.call(e.get_function('t2data.t2data.write_generator'), [d, gen, tape.obj])
        if n > 1:
            _check_tiling(e, tape, 'generation_times', T, 4, 'generator_times' + tag)
            _check_tiling(e, tape, 'generation_rates', R, 4, 'generator_rates' + tag)
            if enth:
                _check_tiling(e, tape, 'generation_enthalpy', H, 4, 'generator_enthalpy' + tag)
            else:
                e.prove(not [r for r in tape.recs if r[1] == 'generation_enthalpy'], 'post:no_enthalpy_records_without_enthalpy' + tag)
        else:
            e.prove(len(tape.recs) == 1, 'post:single_value_generator_has_no_table' + tag)
        d2, _ = _t2data(e)
        tape.rewind()
        line = tape._readline(e)
        try:
            g2 = e.call(e.get_function('t2data.t2data.read_generator'), [d2, line, tape.obj])
        except PyExc as ex:
            e.fail('post:generator_read_back' + tag, 'raises %s' % ex.cls)
            return
        f = g2.fields
        ok = f['name'] == 'gen 1' and f['block'] == '  a 1' and f['type'] == 'MASS' and not tape.errors and tape.pos == len(tape.recs)
        if n > 1:
            ok = ok and L.equals(e, list(e.iterate(f['time'])), T) is True and L.equals(e, list(e.iterate(f['rate'])), R) is True and \
                L.equals(e, list(e.iterate(f['enthalpy'])), H) is True
        e.prove(ok, 'post:generator_read_back' + tag)
    e.explore(prog, 'generator')


def p_rz2d(e, arg):
    nrad, nlay = arg
    tag = '[radii=%d,layers=%d]' % (nrad, nlay)
    def prog(e):
        d, spec = _t2data(e)
        Rr = [e.sym_real('r%d' % k) for k in range(nrad)]
        Ly = [e.sym_real('h%d' % k) for k in range(nlay)]
        section = []
        if nrad:
            section.append(('radii', {'radii': list(Rr)}))
        section.append(('layer', {'layer': list(Ly)}))
        tape = Tape(e, spec)
        try:
            e.call(e.get_function('t2data.t2data.write_meshmaker_rz2d'), [d, section, tape.obj])
        except PyExc as ex:
            e.fail('safety:write_meshmaker_rz2d' + tag, 'raises %s: %s' % (ex.cls, ex.msg))
            return
        if nrad:
            _check_tiling(e, tape, 'radii2', Rr, 8, 'rz2d_radii' + tag)
        _check_tiling(e, tape, 'layer2', Ly, 8, 'rz2d_layers' + tag)
        d2, _ = _t2data(e)
        tape.rewind(); tape.pos = 1
        e.call(e.get_function('t2data.t2data.read_meshmaker_rz2d'), [d2, tape.obj])
        mm = d2.fields['meshmaker']
        ok = len(mm) == 1 and mm[0][0] == 'rz2d' and not tape.errors
        if ok:
            subs = dict(mm[0][1])
            ok = L.equals(e, subs.get('layer', {}).get('layer'), Ly) is True and (not nrad or L.equals(e, subs.get('radii', {}).get('radii'), Rr) is True)
        e.prove(ok, 'post:rz2d_read_back' + tag)
    e.explore(prog, 'rz2d')


def p_options(e, flavour):
    """The MOP digits (PARAM.1) and the MOMOP digits, symbolic 0..9 each: array -> 24 / 21 character string ->
    array through the real write_parameters / read_parameters and write_more_options / read_more_options."""
    def prog(e):
        m = e.load_module('t2data').globals
        d = e.call(m['t2data'], [])
        if flavour == 'AUTOUGH2':
            d.fields['simulator'] = 'AUTOUGH2.2EW'
        mop = [e.sym_int('mop%d' % k, 0, 9) for k in range(1, 25)]
        momop = [e.sym_int('momop%d' % k, 0, 9) for k in range(1, 22)]
        d.fields['parameter']['option'] = NVec([0] + mop)
        d.fields['more_option'] = NVec([0] + momop)
        tape = Tape(e, m['t2data_format_specification'])
        e.call(e.get_function('t2data.t2data.write_parameters'), [d, tape.obj])
        e.call(e.get_function('t2data.t2data.write_more_options'), [d, tape.obj])
        tape.recs.append(('raw', 'ENDCY\n'))
        h = e.call(m['t2data'], [])
        if flavour == 'AUTOUGH2':
            h.fields['simulator'] = 'AUTOUGH2.2EW'
        tape.rewind()
        tape._readline(e)
        nxt = e.call(e.get_function('t2data.t2data.read_parameters'), [h, tape.obj])
        got = h.fields['parameter']['option']
        e.prove(isinstance(got, NVec) and len(got.items) == 25 and L.equals(e, got.items[0], 0) is True and
                _valid(e, z3.And(*[to_int(g) == w for g, w in zip(got.items[1:], mop)])), 'post:MOP_digits_preserved[%s]' % flavour)
        e.prove(nxt == 'MOMOP\n' or (isinstance(nxt, str) and nxt.startswith('MOMOP')), 'post:line_after_PARAM_handed_back[%s]' % flavour)
        e.call(e.get_function('t2data.t2data.read_more_options'), [h, tape.obj])
        got = h.fields['more_option']
        e.prove(isinstance(got, NVec) and len(got.items) == 22 and
                _valid(e, z3.And(*[to_int(g) == w for g, w in zip(got.items[1:], momop)])), 'post:MOMOP_digits_preserved[%s]' % flavour)
    e.explore(prog, 'options')


def _valid(e, cond):
    return e.valid(cond, 20000)


def p_trim(e, n):
    def prog(e):
        f = e.get_function('t2data.trim_trailing_nones')
        import itertools
        ok = True
        for mask in itertools.product([False, True], repeat=n):
            vals = [(k + 1 if present else None) for k, present in enumerate(mask)]
            want = list(vals)
            while want and want[-1] is None:
                want.pop()
            got = e.call(f, [list(vals)])
            ok = ok and got == want
        e.prove(ok, 'post:trim_trailing_nones_keeps_longest_prefix_not_ending_in_None[n=%d]' % n)
    e.explore(prog, 'trim')


def p_section_order(e, _a=None):
    """insert_section keeps _sections a subsequence of the canonical section order when it
    was one (all 2^k subsets for each inserted keyword would be 23 * 2^22 cases: checked for
    every subset of a 10-keyword window around the inserted keyword)."""
    def prog(e):
        import itertools
        m = e.load_module('t2data')
        order = m.globals['t2data_sections']
        ok = True
        bad = None
        for ki, kw in enumerate(order):
            lo, hi = max(0, ki - 5), min(len(order), ki + 6)
            window = [s for s in order[lo:hi] if s != kw]
            for r in range(len(window) + 1):
                for sub in itertools.combinations(window, r):
                    d = Obj(m.globals['t2data'])
                    d.fields['_sections'] = list(sub)
                    e.call(e.get_function('t2data.t2data.insert_section'), [d, kw])
                    got = d.fields['_sections']
                    want = [s for s in order if s in sub or s == kw]
                    if got != want:
                        ok, bad = False, (kw, sub, got)
        e.prove(ok, 'post:insert_section_keeps_canonical_order', )
        if not ok:
            e.fail('post:insert_section_keeps_canonical_order', 'inserting %r into %r gives %r' % bad)
    e.explore(prog, 'section_order')


class TapeFiles(object):
    """The files of one write()/read() cycle as record tapes, keyed by file name: opening for
    writing starts a fresh tape, opening for reading rewinds the one written."""
    def __init__(self, e, specs):
        self.e, self.specs, self.files = e, specs, {}

    def opener(self, which):
        def op(eng, args, kwargs):
            name, mode = args[0], (args[1] if len(args) > 1 else kwargs.get('mode', 'r'))
            if 'w' in mode:
                self.files[name] = Tape(self.e, self.specs[which])
            elif name not in self.files:
                raise PyExc('FileNotFoundError', name)
            self.files[name].rewind()
            return self.files[name].obj
        return op

    def install(self):
        self.e.opaque['t2data_parser'] = self.opener('main')
        self.e.opaque['t2_extra_precision_data_parser'] = self.opener('xp')
        self.e.opaque['os.path.exists'] = lambda eng, args, kwargs: args[0] in self.files

    def errors(self):
        return [x for t in self.files.values() for x in t.errors]

    def records(self):
        """The files as written, string fields rendered to their text."""
        out = {}
        for name, t in self.files.items():
            recs = []
            for r in t.recs:
                if r[0] == 'rec':
                    ls, fm = t._ff().fields['line_spec'][r[1]], t.spec[r[1]][1]
                    vals = [(t._fmt_str(v, fm[k], ls[k][0][1] - ls[k][0][0]) if k < len(ls) and ls[k][1] == 's' and v is not None else
                             (None if k < len(ls) and ls[k][1] == 'x' else v)) for k, v in enumerate(r[2])]
                    recs.append(('rec', r[1], vals))
                else:
                    recs.append(r)
            out[name] = recs
        return out


class SymBackend(object):
    """pyvc: the real constructors and methods run by the executor, symbolic numbers."""
    def __init__(self, e): self.e = e
    def real(self, name, *a): return self.e.sym_real(name, *a)
    def int(self, name, lo, hi): return self.e.sym_int(name, lo, hi)
    def new(self, mod, cls, args=(), kwargs=None): return self.e.call(self.e.load_module(mod).globals[cls], list(args), dict(kwargs or {}))
    def fields(self, o): return o.fields
    def method(self, o, name, *args): return self.e.call(self.e.getattr(o, name), list(args))
    def vec(self, items): return NVec(items)
    def nonzero(self, v): self.e.assume(v != 0)


def build_model(e, flavour, shape):
    from contracts.c01_model import build_model as bm
    return bm(SymBackend(e), flavour, shape)


def _same(e, a, b, path, bad):
    """Structural equality of two symbolic heap values; values are compared with validity under the path condition."""
    if isinstance(a, Obj) and isinstance(b, Obj):
        ka = set(k for k in a.fields if not callable(a.fields[k]))
        for k in sorted(set(a.fields) | set(b.fields)):
            if k in ('rocktype', 'block', 'connection_name', 'generator') and isinstance(a.fields.get(k), (dict, set)):
                continue                # name indices: rebuilt from the lists compared below
            if k not in a.fields or k not in b.fields:
                bad.append('%s.%s present on one side only' % (path, k)); continue
            _same(e, a.fields[k], b.fields[k], '%s.%s' % (path, k), bad)
        return
    if isinstance(a, NVec) and isinstance(b, NVec) or isinstance(a, (list, tuple)) and isinstance(b, (list, tuple)):
        ia, ib = (a.items, b.items) if isinstance(a, NVec) else (a, b)
        if len(ia) != len(ib):
            bad.append('%s: %d items written, %d read' % (path, len(ia), len(ib))); return
        for k, (x, y) in enumerate(zip(ia, ib)):
            _same(e, x, y, '%s[%d]' % (path, k), bad)
        return
    if isinstance(a, dict) and isinstance(b, dict):
        # a key holding None is written as a blank field and is absent after reading: the same content
        ka, kb = [k for k in a if a[k] is not None], [k for k in b if b[k] is not None]
        if set(ka) != set(kb):
            bad.append('%s: keys %r written, %r read' % (path, ka, kb)); return
        for k in ka:
            _same(e, a[k], b[k], '%s[%r]' % (path, k), bad)
        return
    if a is None or b is None or isinstance(a, (str, bool)) or isinstance(b, (str, bool)):
        if isinstance(a, str) and isinstance(b, str) and len(a) != len(b) and a.strip() == b.strip():
            return                      # the same text up to the blank padding of its field
        if not (a is b or (type(a) == type(b) and a == b)):
            bad.append('%s: %r written, %r read' % (path, a, b))
        return
    try:
        eq = L.equals(e, a, b)
    except Exception as ex:
        bad.append('%s: incomparable %r / %r' % (path, a, b)); return
    if eq is True:
        return
    if eq is False:
        bad.append('%s: %r written, %r read' % (path, a, b)); return
    if not e.valid(eq, 10000):
        bad.append('%s: %s written, %s read' % (path, a, b))


from contracts.c01_model import SECTION_CONTENT


def _get(d, path):
    for k in path.split('.'):
        d = d.fields[k]
    return d


def p_whole_file(e, arg):
    """The real t2data.write() and t2data.read() drivers (keyword dispatch, the PARAM look-ahead
    line, the section list, END keyword, the MESH and extra-precision side files) over record tapes."""
    flavour, mesh, xp, shape = arg
    tag = '[%s,%s,xp=%s%s]' % (flavour, 'MESH file' if mesh else 'mesh in file', 'off' if not xp else ('all' if xp[0] is True else '+'.join(xp[0])) + ('/echoed' if xp[1] else ''),
                               ''.join(',%s=%s' % kv for kv in sorted(shape.items())))
    def prog(e):
        m = e.load_module('t2data').globals
        d = build_model(e, flavour, shape)
        files = TapeFiles(e, {'main': m['t2data_format_specification'], 'xp': m['t2data_extra_precision_format_specification']})
        files.install()
        wargs = {'meshfilename': 'MESH'} if mesh else {}
        if xp:
            wargs.update(extra_precision=xp[0], echo_extra_precision=xp[1])
        try:
            e.call(e.get_function('t2data.t2data.write'), [d, 'model.dat'], dict(wargs))
        except PyExc as ex:
            e.fail('post:write_accepts_the_model' + tag, 'raises %s: %s' % (ex.cls, ex.msg)); return
        first = files.records()
        h = e.call(m['t2data'], [])
        try:
            e.call(e.get_function('t2data.t2data.read'), [h, 'model.dat'], {'meshfilename': 'MESH'} if mesh else {})
        except PyExc as ex:
            e.fail('post:read_accepts_what_write_produced' + tag, 'raises %s: %s' % (ex.cls, ex.msg)); return
        e.prove(not files.errors(), 'post:read_accepts_what_write_produced' + tag)
        if files.errors():
            e.fail('post:read_accepts_what_write_produced' + tag, '; '.join(files.errors()[:3]))
        df, hf = d.fields, h.fields
        drop = ('ELEME', 'CONNE') if mesh else ()       # with a MESH file the two grid sections are not in the main file
        so = lambda x: [k for k in x if k not in drop]
        e.prove(so(hf['_sections']) == so(df['_sections']) and len(df['_sections']) >= 10 and all(k in hf['_sections'] for k in drop), 'post:same_sections_in_the_same_order' + tag)
        if so(hf['_sections']) != so(df['_sections']):
            e.fail('post:same_sections_in_the_same_order' + tag, 'written %r read %r' % (df['_sections'], hf['_sections']))
        e.prove(hf['title'] == df['title'] and hf['end_keyword'] == df['end_keyword'] and e.getattr(h, 'type') == flavour, 'post:title_flavour_and_end_keyword_preserved' + tag)
        if xp:
            e.prove(hf['_extra_precision'] == df['_extra_precision'] and hf['_echo_extra_precision'] == df['_echo_extra_precision'] and len(df['_extra_precision']) >= 2,
                    'post:extra_precision_sections_and_echo_flag_preserved' + tag)
        for sec in m['t2data_sections']:
            if sec not in df['_sections'] and sec not in df['_extra_precision'] and not (mesh and sec in ('ELEME', 'CONNE')):
                continue
            bad = []
            for path in SECTION_CONTENT[sec]:
                a, b = _get(d, path), _get(h, path)
                if sec in ('FOFT', 'COFT', 'GOFT') and (mesh or df['_sections'].index(sec) < df['_sections'].index('ELEME')):
                    # read before the MESH file: the requests are kept as names (and written from names)
                    nm = lambda x: x if isinstance(x, (str, tuple)) else (x.fields['name'] if 'name' in x.fields else tuple(k.fields['name'] for k in x.fields['block']))
                    a, b = [nm(x) for x in a], [nm(x) for x in b]
                _same(e, a, b, path, bad)
            name = 'post:section_%s_content_preserved%s' % (sec, tag)
            if bad:
                e.fail(name, '; '.join(bad[:4]))
            else:
                e.prove(True, name)
        # writing the re-read object reproduces the first files record for record
        try:
            e.call(e.get_function('t2data.t2data.write'), [h, 'model.dat'], {'meshfilename': 'MESH'} if mesh else {})
        except PyExc as ex:
            e.fail('post:second_write_reproduces_the_first_files' + tag, 'raises %s: %s' % (ex.cls, ex.msg)); return
        second = files.records()
        # and a further fresh object reads the same content (nothing is shared between data objects)
        h2 = e.call(m['t2data'], [])
        try:
            e.call(e.get_function('t2data.t2data.read'), [h2, 'model.dat'], {'meshfilename': 'MESH'} if mesh else {})
            bad = []
            _same(e, df['parameter'], h2.fields['parameter'], 'parameter', bad)          # against what was written: objects may share state
            _same(e, df['parameter'], hf['parameter'], 'parameter (first object, after the second was read)', bad)
            _same(e, df['generatorlist'], h2.fields['generatorlist'], 'generatorlist', bad)
            _same(e, hf['_sections'], h2.fields['_sections'], '_sections', bad)
        except PyExc as ex:
            bad = ['raises %s: %s' % (ex.cls, ex.msg)]
        if bad:
            e.fail('post:a_further_fresh_object_reads_the_same_content' + tag, '; '.join(bad[:4]))
        else:
            e.prove(True, 'post:a_further_fresh_object_reads_the_same_content' + tag)
        bad = []
        _same(e, first, second, 'files', bad)
        if bad:
            e.fail('post:second_write_reproduces_the_first_files' + tag, '; '.join(bad[:4]))
        else:
            e.prove(len(first) == 1 + (1 if mesh else 0) + (1 if xp else 0), 'post:second_write_reproduces_the_first_files' + tag)
    e.explore(prog, 'whole_file')


WHOLE = [('TOUGH2', False, None, {}), ('AUTOUGH2', False, None, {}), ('TOUGH2', False, None, {'end': 'ENDFI', 'incons': 8}), ('AUTOUGH2', False, None, {'end': 'ENDFI', 'incons': 1}), ('TOUGH2', True, None, {'timesteps': 8, 'times': 16, 'incons': 4}),
         ('AUTOUGH2', True, None, {'timesteps': 0, 'times': 0, 'incons': 0, 'ltab': 4, 'short': False}),
         ('AUTOUGH2', False, (True, False), {}), ('AUTOUGH2', False, (True, True), {'timesteps': 17}), ('AUTOUGH2', False, (['ROCKS', 'GENER'], False), {'ltab': 8})]


# every section kind that may legally follow PARAM directly (the reader of PARAM hands the line after the default
# initial conditions back to the driver), with one and with two lines of default initial conditions
AFTER_PARAM = {'TOUGH2': ['START', 'NOVER', 'RPCAP', 'SOLVR', 'MULTI', 'TIMES', 'SELEC', 'ELEME', 'MESHM', 'GENER', 'FOFT', 'COFT', 'GOFT', 'INCON', 'INDOM', 'END'],
               'AUTOUGH2': ['START', 'RPCAP', 'LINEQ', 'MULTI', 'TIMES', 'ELEME', 'MESHM', 'GENER', 'INCON', 'INDOM', 'END']}
WHOLE += [(fl, False, None, {'after_param': k, 'incons': n}) for fl in ('TOUGH2', 'AUTOUGH2') for k in AFTER_PARAM[fl] for n in (3, 6)]


def programs(tier):
    ps = [('p_timesteps', n) for n in LENGTHS] + [('p_times', n) for n in LENGTHS] + [('p_selection', n) for n in LENGTHS]
    ps += [('p_generator', (n, en)) for n in range(0, 14) for en in (False, True)]
    ps += [('p_rz2d', (a, b)) for a, b in [(0, 3), (0, 9), (8, 9), (9, 8), (3, 17), (17, 3), (1, 1), (8, 8), (16, 16), (12, 5)]]
    ps += [('p_trim', n) for n in range(0, 9)]
    ps += [('p_section_order', None)]
    ps += [('p_whole_file', w) for w in WHOLE]
    ps += [('p_options', 'TOUGH2'), ('p_options', 'AUTOUGH2')]
    return ps


def replay(obname, model, result):
    prog = result['program']
    if prog == 'p_options':
        m = model or {}
        mop = [int(m.get('mop%d' % k, 0) if not isinstance(m.get('mop%d' % k), dict) else m['mop%d' % k]['num']) for k in range(1, 25)]
        momop = [int(m.get('momop%d' % k, 0) if not isinstance(m.get('momop%d' % k), dict) else m['momop%d' % k]['num']) for k in range(1, 22)]
        if not any(momop):
            momop[0] = 1
        return ("import os, tempfile, shutil\nimport numpy as np\nfrom t2data import *\n"
                "d = t2data(); tmp = tempfile.mkdtemp(dir='/var/tmp')\n"
                "if %r == 'AUTOUGH2': d.simulator = 'AUTOUGH2.2EW'\n"
                "d.parameter['option'] = np.array([0] + %r, np.int8); d.more_option = np.array([0] + %r, np.int8)\n"
                "try:\n"
                "    d.write(os.path.join(tmp, 'x.dat')); r = t2data(os.path.join(tmp, 'x.dat'))\n"
                "    ok = list(r.parameter['option']) == list(d.parameter['option']) and list(r.more_option) == list(d.more_option) and 'MOMOP' in r._sections\n"
                "    detail = 'MOP %%r -> %%r; MOMOP %%r -> %%r' %% (list(d.parameter['option']), list(r.parameter['option']), list(d.more_option), list(r.more_option))\n"
                "except Exception as e:\n"
                "    ok, detail = False, '%%s: %%s' %% (type(e).__name__, e)\n"
                "finally: shutil.rmtree(tmp)\n") % (result['arg'], mop, momop)
    if prog == 'p_whole_file':
        flavour, mesh, xp, shape = result['arg']
        return ("from contracts.c01_model import native_roundtrip\n"
                "ok, detail = native_roundtrip(%r, %r, %r, %r, %r)\n") % (flavour, mesh, tuple(xp) if xp else None, shape, model or {})
    if prog == 'p_rz2d':
        nrad, nlay = result['arg']
        return ("import os, tempfile, shutil\nfrom t2data import *\n"
                "d = t2data(); tmp = tempfile.mkdtemp(dir='/var/tmp')\n"
                "sec = ([('radii', {'radii': [float(k + 1) for k in range(%d)]})] if %d else []) + [('layer', {'layer': [float(10 + k) for k in range(%d)]})]\n"
                "d.meshmaker = [('rz2d', sec)]\n"
                "try:\n"
                "    d.write(os.path.join(tmp, 'x.dat')); r = t2data(os.path.join(tmp, 'x.dat'))\n"
                "    ok = r.meshmaker == d.meshmaker; detail = 'wrote %%r, read %%r' %% (d.meshmaker, r.meshmaker)\n"
                "except Exception as e:\n"
                "    ok, detail = False, '%%s: %%s' %% (type(e).__name__, e)\n"
                "finally: shutil.rmtree(tmp)\n") % (nrad, nrad, nlay)
    if prog in ('p_timesteps', 'p_times', 'p_selection'):
        n = result['arg']
        return ("import os, tempfile, shutil, math\nfrom t2data import *\n"
                "n = %d; d = t2data(); tmp = tempfile.mkdtemp(dir='/var/tmp')\n"
                "X = [float(k + 1) for k in range(n)]\n"
                "d.parameter['const_timestep'] = -int(math.ceil(n / 8.)) if n else 1.0; d.parameter['timestep'] = list(X) if n else [1.0]\n"
                "if n: d.output_times = {'num_times_specified': n, 'num_times': n, 'time': list(X)}\n"
                "d.selection = {'integer': [int(math.ceil(n / 8.))] + [0] * 15, 'float': list(X)}\n"
                "try:\n"
                "    d.write(os.path.join(tmp, 'x.dat')); r = t2data(os.path.join(tmp, 'x.dat'))\n"
                "    ok = (not n or r.parameter['timestep'] == X) and (not n or r.output_times['time'] == X) and [v for v in r.selection['float'] if v is not None] == X\n"
                "    detail = 'timesteps %%r times %%r selec %%r' %% (r.parameter['timestep'], r.output_times.get('time'), r.selection['float'])\n"
                "except Exception as e:\n"
                "    ok, detail = False, '%%s: %%s' %% (type(e).__name__, e)\n"
                "finally: shutil.rmtree(tmp)\n") % n
    if prog == 'p_generator':
        n, enth = result['arg']
        return ("import os, tempfile, shutil\nfrom t2data import *\n"
                "n, enth = %d, %r; d = t2data(); tmp = tempfile.mkdtemp(dir='/var/tmp')\n"
                "d.grid.add_rocktype(rocktype()); d.grid.add_block(t2block('  a 1', 1.0, d.grid.rocktypelist[0]))\n"
                "T = [float(k) for k in range(n)]; R = [float(10 + k) for k in range(n)]; H = [float(100 + k) for k in range(n)] if enth else []\n"
                "d.add_generator(t2generator(name='gen 1', block='  a 1', type='MASS', ltab=n, itab='E' if enth else '', gx=1., ex=2., time=T, rate=R, enthalpy=H))\n"
                "try:\n"
                "    d.write(os.path.join(tmp, 'x.dat')); r = t2data(os.path.join(tmp, 'x.dat')); g = r.generatorlist[0]\n"
                "    ok = n <= 1 or (list(g.time) == T and list(g.rate) == R and list(g.enthalpy) == H)\n"
                "    detail = 'time %%r rate %%r enthalpy %%r' %% (g.time, g.rate, g.enthalpy)\n"
                "except Exception as e:\n"
                "    ok, detail = False, '%%s: %%s' %% (type(e).__name__, e)\n"
                "finally: shutil.rmtree(tmp)\n") % (n, enth)
    return None
