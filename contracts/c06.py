"""C06 - obligations on t2listing.history and the skip loops it drives (real source)."""
import ast
import time
import z3
from pyvc.engine import Obj, NVec, Builtin, Frame, FuncVal
from pyvc import library as L
from pyvc.values import PyExc, to_real, to_int, Unsupported

FUNCS = ['t2listing.t2listing.history', 't2listing.t2listing.table_expected_floats', 't2listing.t2listing.skip_to_table_TOUGH2', 't2listing.t2listing.skip_to_table_TOUGHplus',
         't2listing.t2listing.skip_to_table_AUTOUGH2', 't2listing.t2listing.skip_to_results_line',
         't2listing.t2listing.read_table_line_TOUGH2', 't2listing.t2listing.read_table_line_AUTOUGH2']


def plain(f):
    f.plain = True
    return f


# ---- (1) frame: history never assigns the reader's time / step / tables -------------------

FORBIDDEN = {'_time', '_step', '_table', '_tablenames', 'times', 'fulltimes', 'steps', 'fullsteps', '_pos', '_fullpos', '_short', 'title'}


def _class_methods(repo):
    import os
    src = open(os.path.join(repo, 't2listing.py')).read()
    tree = ast.parse(src)
    for n in tree.body:
        if isinstance(n, ast.ClassDef) and n.name == 't2listing':
            meths = {}
            for m in ast.walk(n):
                if isinstance(m, ast.FunctionDef):
                    meths.setdefault(m.name, m)
            return meths
    return {}


def _reach(meths, start):
    """Methods reachable from `start` through self.<name>(...) calls; a dispatch slot
    self.X bound in setup to X_<SIMULATOR> reaches every X_* variant."""
    seen, todo = set(), [start]
    while todo:
        f = todo.pop()
        if f in seen or f not in meths:
            continue
        seen.add(f)
        for n in ast.walk(meths[f]):
            if isinstance(n, ast.Call) and isinstance(n.func, ast.Attribute) and isinstance(n.func.value, ast.Name) and n.func.value.id == 'self':
                name = n.func.attr
                cands = [name] + [m for m in meths if m.startswith(name + '_')]
                todo.extend(cands)
            # property reads that run code
            if isinstance(n, ast.Attribute) and isinstance(n.value, ast.Name) and n.value.id == 'self':
                if 'get_' + n.attr in meths:
                    todo.append('get_' + n.attr)
                if isinstance(n.ctx, ast.Store) and 'set_' + n.attr in meths:
                    todo.append('set_' + n.attr)
    return seen


def _stores(node):
    out = []
    for n in ast.walk(node):
        if isinstance(n, ast.Attribute) and isinstance(n.ctx, (ast.Store, ast.Del)) and isinstance(n.value, ast.Name) and n.value.id == 'self':
            out.append((n.attr, n.lineno))
        # item stores into a forbidden container: self._table[...] = ..., self._table[t]._data[...] = ...
        if isinstance(n, ast.Subscript) and isinstance(n.ctx, (ast.Store, ast.Del)):
            base = n.value
            while isinstance(base, (ast.Subscript, ast.Attribute)) and not (isinstance(base, ast.Attribute) and isinstance(base.value, ast.Name) and base.value.id == 'self'):
                base = base.value
            if isinstance(base, ast.Attribute) and isinstance(base.value, ast.Name) and base.value.id == 'self':
                out.append((base.attr, n.lineno))
    return out


@plain
def o_frame(repo, arg, timeout_ms):
    t0 = time.time()
    meths = _class_methods(repo)
    reach = _reach(meths, 'history')
    bad = []
    idx_stores = []
    for f in sorted(reach):
        for attr, line in _stores(meths[f]):
            if attr in FORBIDDEN:
                bad.append('%s assigns self.%s (line %d)' % (f, attr, line))
            if attr in ('_index', 'index') and f == 'history':
                idx_stores.append(line)
    out = [{'name': 'frame:history_never_assigns_time_step_or_tables', 'status': 'failed' if bad else 'discharged',
            'detail': ('; '.join(bad[:6]) if bad else '%d methods reachable from history, none stores into %s' % (len(reach), sorted(FORBIDDEN)))[:600],
            'seconds': time.time() - t0, 'backend': 'ast-frame', 'model': {'stores': bad[:6]} if bad else None}]
    # the index is saved before the scan and restored after it
    h = meths.get('history')
    ok = False
    if h is not None:
        saves = [n for n in ast.walk(h) if isinstance(n, ast.Assign) and isinstance(n.targets[0], ast.Name) and n.targets[0].id == 'old_index']
        restores = [n for n in ast.walk(h) if isinstance(n, ast.Assign) and isinstance(n.targets[0], ast.Attribute) and n.targets[0].attr == '_index'
                    and isinstance(n.value, ast.Name) and n.value.id == 'old_index']
        returns = [n for n in ast.walk(h) if isinstance(n, ast.Return) and not (isinstance(n.value, ast.Constant) and n.value.value is None)
                   and n.col_offset == h.body[-1].col_offset]
        ok = bool(saves) and bool(restores) and all(r.lineno > restores[-1].lineno for r in returns if r.lineno > saves[0].lineno + 60)
    out.append({'name': 'frame:history_restores_the_index', 'status': 'discharged' if ok else 'failed', 'detail': '', 'seconds': 0.0,
                'backend': 'ast-frame', 'model': None if ok else {'function': 'history'}})
    return out


# ---- (2) ordered_selection -------------------------------------------------------------

def _history_frame(e):
    m = e.load_module('t2listing')
    hist = e.get_function('t2listing.t2listing.history')
    fr = Frame(m, {}, None, hist)
    for n in hist.node.body:
        if isinstance(n, ast.FunctionDef):
            e.stmt_FunctionDef(n, fr)
    return fr, hist


def p_ordered_selection(e, _a=None):
    """The selection is grouped per table in file order; within a table the full-output items
    are sorted by row line and the short-output items by their line in the SHORT table;
    an item is flagged reversed exactly when only the reversed connection name is a row."""
    def prog(e):
        fr, hist = _history_frame(e)
        m = e.load_module('t2listing')
        rows_c = [('a', 'b'), ('b', 'c'), ('c', 'd'), ('d', 'e')]
        rows_e = ['a', 'b', 'c', 'd']
        def table(rows, allow_rev):
            return Obj(None, row_name=list(rows), _row=dict((r, i) for i, r in enumerate(rows)), row_line=[],
                       allow_reverse_keys=allow_rev)
        tables = {'element': table(rows_e, False), 'connection': table(rows_c, True)}
        # short output prints the connection rows in a symbolic (arbitrary) order
        perm = [e.sym_int('short_line%d' % k, 0, 3) for k in range(4)]
        e.assume(z3.Distinct(*perm))
        # concretise the permutation by path splitting (short_indices is a dict of ints)
        cperm = []
        for k in range(4):
            for v in range(4):
                if e.branch(perm[k] == v):
                    cperm.append(v)
                    break
        short_indices = {'CSHORT': dict((k, cperm[k]) for k in range(4)), 'ESHORT': {0: 0, 2: 1}}
        short_types = ['ESHORT', 'CSHORT']
        # two connection items with symbolic row and direction, one element item
        sel = []
        want = []
        for j in range(2):
            r = e.sym_int('row%d' % j, 0, 3)
            rev = e.sym_bool('rev%d' % j)
            for v in range(4):
                if e.branch(r == v):
                    key = rows_c[v][::-1] if e.branch(rev) else rows_c[v]
                    sel.append(('c', key, 'Flow'))
                    want.append(('connection', v, key != rows_c[v]))
                    break
        sel.append(('e', 'c', 'P'))
        want.append(('element', 2, False))
        res = e.call(fr.locals['ordered_selection'], [sel, tables, short_types, short_indices])
        names = [t[0] for t in res]
        e.prove(names == [n for n in ['element', 'connection'] if n in names] and set(names) == {'element', 'connection'}, 'post:tables_in_file_order')
        for (tname, tselect, tshort) in res:
            e.prove(all(tselect[k][0] <= tselect[k + 1][0] for k in range(len(tselect) - 1)), 'post:full_selection_sorted_by_row_line')
            e.prove(all(tshort[k][0] <= tshort[k + 1][0] for k in range(len(tshort) - 1)), 'post:short_selection_sorted_by_short_line')
            items = sorted((i, si, rv) for (i, h, rv, si) in tselect)
            expect = sorted((row, si, rv) for si, (tn, row, rv) in enumerate(want) if tn == tname)
            e.prove(items == expect, 'post:each_item_once_with_its_own_reverse_flag')
            if tname == 'connection':
                es = sorted((cperm[row], si, rv) for si, (tn, row, rv) in enumerate(want) if tn == tname)
                e.prove(sorted((i, si, rv) for (i, h, rv, si) in tshort) == es, 'post:short_items_carry_their_short_line_and_flag')
    e.explore(prog, 'ordered_selection')


# ---- (3) the read loop: each item's sign depends only on its own reverse flag -----------------

def p_read_loop_sign(e, _a=None):
    def prog(e):
        fr, hist = _history_frame(e)
        loop = None
        for n in ast.walk(hist.node):
            if isinstance(n, ast.For) and isinstance(n.target, ast.Tuple) and [getattr(t, 'id', None) for t in n.target.elts] == ['lineindex', 'colname', 'reverse', 'sel_index']:
                loop = n
        if loop is None:
            raise Unsupported('read loop of history not found')
        vals = {}
        def read_table_line(eng, line, ncols, fmt):
            k = line
            if k not in vals:
                vals[k] = [z3.Real('cell_%s_%d' % (k, c)) for c in range(2)]
            return list(vals[k])
        lines = iter(['L%d' % k for k in range(1, 50)])
        fileobj = Obj(None)
        skipped = []
        fileobj.fields['readline'] = Builtin('file.readline', lambda eng: skipped.append(next(lines)))
        me = Obj(None)
        me.fields.update(_file=fileobj, readline=Builtin('readline', lambda eng: next(lines)),
                         read_table_line=Builtin('read_table_line', read_table_line),
                         _table={'connection': Obj(None, _col={'A': 0, 'B': 1})})
        r0, r1, r2 = e.sym_bool('rev0'), e.sym_bool('rev1'), e.sym_bool('rev2')
        def cb(b):
            return True if e.branch(b) else False
        ts = [(0, 'A', cb(r0), 0), (2, 'B', cb(r1), 1), (2, 'A', cb(r2), 2)]
        hist_out = [[], [], []]
        fr.locals.update(self=me, ts=ts, index=0, line='L0', ncols=2, fmt=None, tname='connection', hist=hist_out)
        e.exec_stmt(loop, fr)
        flags = [t[2] for t in ts]
        want_lines = ['L0', 'L2', 'L2']
        cols = [0, 1, 0]
        for k in range(3):
            ok = len(hist_out[k]) == 1
            if ok:
                cell = vals.get(want_lines[k], [None, None])[cols[k]]
                ok = cell is not None and L.equals(e, hist_out[k][0], (-1 if flags[k] else 1) * cell) is True
            e.prove(ok, 'post:item_value_is_its_cell_negated_iff_its_own_name_was_reversed[item%d]' % k)
    e.explore(prog, 'read_loop_sign')


# ---- (3b) the whole history() on a listing record: values, times and restored position -------------

def p_history_whole(e, arg):
    """The real t2listing.history run by the executor on a listing record with three full result sets and (AUTOUGH2) two
    short-output sets in between; file positioning (seek / skip_to_table / skip_to_results_line / readline) is a position
    counter and read_table_line returns symbolic cells named by (result set, table, line).  Every item comes back as the
    cells a step-through would read at its own row and column (negated for a reversed connection), paired with a time array
    of the same length - the times of the result sets it was read from - and the reader's index is what it was before."""
    short, with_short_sets = arg
    tag = '[short=%s,%s]' % (short, 'with short-output sets' if with_short_sets else 'full sets only')
    def prog(e):
        m = e.load_module('t2listing')
        cls = m.globals['t2listing']
        rows_e, rows_c = ['  a 1', '  b 1', '  c 1'], [('  a 1', '  b 1'), ('  b 1', '  c 1')]
        def table(rows, cols, allow_rev):
            return Obj(None, row_name=list(rows), _row=dict((r, i) for i, r in enumerate(rows)), row_line=[], allow_reverse_keys=allow_rev, num_rows=len(rows),
                       column_name=list(cols), num_columns=len(cols), _col=dict((c, i) for i, c in enumerate(cols)), row_format=None)
        tables = {'element': table(rows_e, ['P', 'T'], False), 'connection': table(rows_c, ['Flow', 'Heat'], True)}
        kinds = ['full', 'short', 'full', 'short', 'full'] if with_short_sets else ['full', 'full', 'full']
        npos = len(kinds)
        alltimes = [e.sym_real('time%d' % k) for k in range(npos)]
        fulltimes = [t for t, k in zip(alltimes, kinds) if k == 'full']
        state = {'ipos': None, 'table': None, 'line': 0}
        fileobj = Obj(None)
        fileobj.fields['seek'] = Builtin('seek', lambda eng, p: state.update(ipos=p, table=None, line=0))
        fileobj.fields['readline'] = Builtin('file.readline', lambda eng: state.update(line=state['line'] + 1))
        def skip_to_table(eng, tname, last, nelt):
            state.update(table=tname, line=-1)
        def readline(eng):
            state['line'] += 1
            return ('line', state['ipos'], state['table'], state['line'])
        cells = {}
        def read_table_line(eng, line, ncols, fmt):
            if line not in cells:
                cells[line] = [z3.Real('cell_%d_%s_%d_%d' % (line[1], line[2], line[3], c)) for c in range(ncols)]
            return list(cells[line])
        lst = Obj(cls)
        idx0 = e.sym_int('index0', 0, len(fulltimes) - 1)
        lst.fields.update(_table=tables, short_types=['ESHORT'] if with_short_sets else [], short_indices={'ESHORT': {0: 0, 2: 1}} if with_short_sets else {},
                          _pos=list(range(npos)), _short=[k == 'short' for k in kinds], _file=fileobj, _index=idx0,
                          times=NVec(list(alltimes)), fulltimes=NVec(list(fulltimes)),
                          rewind=Builtin('rewind', lambda eng: None), skip_to_table=Builtin('skip_to_table', skip_to_table),
                          skip_to_results_line=Builtin('skip_to_results_line', lambda eng, n: None), readline=Builtin('readline', readline),
                          read_table_line=Builtin('read_table_line', read_table_line))
        # items: an element row that the short output prints, one it does not, a connection by name and reversed
        sel = [('e', '  c 1', 'T'), ('e', '  b 1', 'P'), ('c', ('  b 1', '  c 1'), 'Heat'), ('c', ('  b 1', '  a 1'), 'Flow')]
        try:
            res = e.call(e.getattr(lst, 'history'), [list(sel)], {'short': short})
        except PyExc as ex:
            e.fail('post:history_completes' + tag, 'raises %s: %s' % (ex.cls, ex.msg)); return
        e.prove(isinstance(res, list) and len(res) == len(sel), 'post:one_series_per_item' + tag)
        if not (isinstance(res, list) and len(res) == len(sel)):
            return
        # what stepping through would give: (table, line in a full set, line in a short set or None, column, sign)
        spec = [('element', 2, 1, 1, 1), ('element', 1, None, 0, 1), ('connection', 1, None, 1, 1), ('connection', 0, None, 0, -1)]
        okv, okt, why = True, True, ''
        for (times, vals), (tname, fline, sline, col, sgn) in zip(res, spec):
            vals = list(vals.items) if isinstance(vals, NVec) else list(vals)
            tms = list(times.items) if isinstance(times, NVec) else list(times)
            want_v, want_t = [], []
            for ip, kind in enumerate(kinds):
                if kind == 'short' and not (short and sline is not None):
                    continue
                ln = fline if kind == 'full' else sline
                want_v.append(sgn * z3.Real('cell_%d_%s_%d_%d' % (ip, tname, ln, col)))
                want_t.append(alltimes[ip])
            if len(vals) != len(want_v) or not all(L.equals(e, a, b) is True or e.valid(L.equals(e, a, b)) for a, b in zip(vals, want_v)):
                okv, why = False, 'item %s: %d values, stepping through gives %d' % (tname, len(vals), len(want_v))
            if len(tms) != len(vals) or len(tms) != len(want_t) or not all(L.equals(e, a, b) is True for a, b in zip(tms, want_t)):
                okt, why = False, 'item %s: %d times for %d values (stepping through: %d)' % (tname, len(tms), len(vals), len(want_t))
        for name, ok in (('post:each_item_is_the_series_a_step_through_reads', okv), ('post:each_series_is_paired_with_the_times_it_was_read_at', okt)):
            if ok:
                e.prove(True, name + tag)
            else:
                e.fail(name + tag, why)
        e.prove(L.equals(e, lst.fields['_index'], idx0) is True, 'post:reader_index_restored' + tag)
    e.explore(prog, 'history_whole')


# ---- (4) progress of the table-skipping loops --------------------------------------------

def p_skip_progress(e, sim):
    """One iteration of the while loop of skip_to_table_<sim> from an arbitrary state in which
    the wanted table has not been reached: afterwards the loop has exited, or the file
    position has strictly advanced, or (TOUGH2 only) the end of the file was hit.
    skipto / next_table are opaque: skipto(found) => position strictly advances, not found =>
    position at end of file; next_table returns None when its own skipto fails."""
    def prog(e):
        m = e.load_module('t2listing')
        f = e.get_function('t2listing.t2listing.skip_to_table_%s' % sim)
        loop = [n for n in ast.walk(f.node) if isinstance(n, ast.While)][0]
        size = e.sym_int('size', 1)
        pos0 = e.sym_int('pos', 0)
        e.assume(pos0 <= size)
        state = {'pos': pos0, 'eof': False}
        def skipto(eng, *a, **k):
            found = z3.Bool(eng.fresh('found'))
            if eng.branch(found):
                np_ = z3.Int(eng.fresh('pos'))
                eng.assume(z3.And(np_ > state['pos'], np_ <= size))
                state['pos'] = np_
                return 'kw'
            state['pos'] = size
            state['eof'] = True
            return False
        names = ['element', 'connection', 'primary', 'generation']
        def next_table(eng, *a):
            if state['eof']:
                return None
            c = z3.Int(eng.fresh('which'))
            for i, nm in enumerate(names):
                if eng.branch(c == i):
                    return nm
            return None
        me = Obj(None)
        me.fields.update(skipto=Builtin('skipto', skipto), next_table_TOUGH2=Builtin('next_table', next_table),
                         next_table_TOUGHplus=Builtin('next_table', next_table))
        fr = Frame(m, {'self': me, 'tablename': 'generation', 'tname': 'element', 'nelt_tables': 0}, None, f)
        # run exactly one iteration of the loop body
        exited = False
        try:
            e.exec_block(loop.body, fr)
        except Exception as ex:
            from pyvc.engine import BreakSignal
            if isinstance(ex, BreakSignal):
                exited = True
            else:
                raise
        tn = fr.locals['tname']
        exited = exited or (tn == fr.locals['tablename'])
        progressed = state['pos'] > pos0
        if sim == 'TOUGHplus':
            e.prove(z3.Or(z3.BoolVal(exited), z3.And(progressed, z3.BoolVal(not state['eof']))), 'variant:skip_to_table_TOUGHplus_exits_or_advances')
        else:
            e.prove(z3.Or(z3.BoolVal(exited), progressed, z3.BoolVal(state['eof'])), 'variant:skip_to_table_TOUGH2_exits_or_advances_or_eof')
    e.explore(prog, 'skip_progress')


PROGRAMS = [('o_frame', None), ('p_ordered_selection', None), ('p_read_loop_sign', None),
            ('p_skip_progress', 'TOUGHplus'), ('p_skip_progress', 'TOUGH2')] + \
           [('p_history_whole', (sh, ws)) for sh, ws in ((True, True), (False, True), (True, False))]


def replay(obname, model, result):
    if result['program'] == 'p_history_whole':
        return ("import sys; sys.path.insert(0, '/verif')\nfrom bounded.c06_replay import replay_history\nok, detail = replay_history()\n")
    return None
