"""C08 - the representation invariant wf(grid) of a t2grid as a contract on the real editing operations:
requires wf(grid), ensures wf(grid').  Start grids: the 4-block grid of contracts.c09 (real constructors,
symbolic volumes, centres, distances, areas) and the grid t2grid.fromgeo() builds from a real rectangular
geometry (both run by the executor)."""
import z3
from pyvc.engine import Obj, NVec
from pyvc import library as L
from pyvc.values import PyExc, Unsupported, to_real
from contracts.c09 import make_grid, NAMES

FUNCS = ['t2grids.t2grid.add_block', 't2grids.t2grid.delete_block', 't2grids.t2grid.add_connection', 't2grids.t2grid.delete_connection', 't2grids.t2grid.add_rocktype',
         't2grids.t2grid.delete_rocktype', 't2grids.t2grid.rename_rocktype', 't2grids.t2grid.clean_rocktypes', 't2grids.t2grid.demote_block', 't2grids.t2grid.__add__',
         't2grids.t2grid.embed', 't2grids.t2grid.rename_blocks', 't2grids.t2grid.reorder', 't2grids.t2grid.sort_rocktypes', 't2grids.t2grid.fromgeo']

GROUPS = ('block_lookup_and_list_agree_with_unique_names', 'rocktype_lookup_and_list_agree_with_unique_names', 'connections_join_blocks_of_the_grid_under_their_current_names',
          'each_block_records_exactly_the_connections_that_mention_it', 'every_block_rock_type_is_registered')


def wf(grid):
    f = grid.fields
    out = dict((g, []) for g in GROUPS)
    names = [b.fields['name'] for b in f['blocklist']]
    if len(set(names)) != len(names) or set(f['block']) != set(names) or any(f['block'].get(n) is not b for n, b in zip(names, f['blocklist'])):
        out[GROUPS[0]].append('block list %r, lookup keys %r' % (names, sorted(f['block'])))
    rnames = [r.fields['name'] for r in f['rocktypelist']]
    if len(set(rnames)) != len(rnames) or set(f['rocktype']) != set(rnames) or any(f['rocktype'].get(n) is not r for n, r in zip(rnames, f['rocktypelist'])):
        out[GROUPS[1]].append('rock type list %r, lookup keys %r' % (rnames, sorted(f['rocktype'])))
    keys = []
    for c in f['connectionlist']:
        k = tuple(b.fields['name'] for b in c.fields['block'])
        keys.append(k)
        if f['connection'].get(k) is not c:
            out[GROUPS[2]].append('connection %r is not found under the names of its blocks' % (k,))
        for b in c.fields['block']:
            if not any(b is x for x in f['blocklist']):
                out[GROUPS[2]].append('connection %r joins a block object that is not in the grid' % (k,))
    if set(f['connection']) != set(keys) or len(set(keys)) != len(keys):
        out[GROUPS[2]].append('connection list %r, lookup keys %r' % (keys, sorted(f['connection'])))
    for b in f['blocklist']:
        want = set(k for k in keys if b.fields['name'] in k)
        if set(b.fields['connection_name']) != want:
            out[GROUPS[3]].append('block %r records %r, mentioned by %r' % (b.fields['name'], sorted(b.fields['connection_name']), sorted(want)))
        rt = b.fields['rocktype']
        if not any(rt is r for r in f['rocktypelist']):
            out[GROUPS[4]].append('block %r has rock type %r which is not a registered object' % (b.fields['name'], rt.fields['name'] if isinstance(rt, Obj) else rt))
    return out


def _new_block(e, grid, name, rt=None):
    g = e.load_module('t2grids').globals
    return e.call(g['t2block'], [name, e.sym_real('nvol', 0), rt if rt is not None else grid.fields['rocktypelist'][0]], {'centre': NVec([e.sym_real('nx'), e.sym_real('ny'), e.sym_real('nz')])})


def _other_grid(e, names, rockname):
    g = e.load_module('t2grids').globals
    grid = e.call(g['t2grid'], [])
    rt = e.call(g['rocktype'], [rockname])
    e.call(e.getattr(grid, 'add_rocktype'), [rt])
    for k, n in enumerate(names):
        e.call(e.getattr(grid, 'add_block'), [e.call(g['t2block'], [n, e.sym_real('ovol%d' % k, 0), rt])])
    bl = grid.fields['blocklist']
    for k in range(len(bl) - 1):
        e.call(e.getattr(grid, 'add_connection'), [e.call(g['t2connection'], [[bl[k], bl[k + 1]], 1, [e.sym_real('od%da' % k, 0), e.sym_real('od%db' % k, 0)], e.sym_real('oarea%d' % k, 0), 0])])
    return grid


def op_add_block(e, G, a):       e.call(e.getattr(G, 'add_block'), [_new_block(e, G, a[0])])
def op_delete_block(e, G, a):    e.call(e.getattr(G, 'delete_block'), [G.fields['blocklist'][a[0]].fields['name']])
def op_delete_connection(e, G, a): e.call(e.getattr(G, 'delete_connection'), [tuple(b.fields['name'] for b in G.fields['connectionlist'][a[0]].fields['block'])])
def op_add_connection(e, G, a):
    g = e.load_module('t2grids').globals
    bl = G.fields['blocklist']
    e.call(e.getattr(G, 'add_connection'), [e.call(g['t2connection'], [[bl[a[0]], bl[a[1]]], 2, [e.sym_real('nd1', 0), e.sym_real('nd2', 0)], e.sym_real('narea', 0), e.sym_real('ncos', -1, 1)])])
def op_add_rocktype(e, G, a):    e.call(e.getattr(G, 'add_rocktype'), [e.call(e.load_module('t2grids').globals['rocktype'], [a[0]])])
def op_delete_rocktype(e, G, a): e.call(e.getattr(G, 'delete_rocktype'), [a[0]])
def op_rename_rocktype(e, G, a): e.call(e.getattr(G, 'rename_rocktype'), [G.fields['rocktypelist'][0].fields['name'], a[0]])
def op_clean_rocktypes(e, G, a):
    e.call(e.getattr(G, 'add_rocktype'), [e.call(e.load_module('t2grids').globals['rocktype'], ['unuse'])])
    e.call(e.getattr(G, 'clean_rocktypes'), [])
def op_sort_rocktypes(e, G, a):
    e.call(e.getattr(G, 'add_rocktype'), [e.call(e.load_module('t2grids').globals['rocktype'], ['aaaaa'])])
    e.call(e.getattr(G, 'sort_rocktypes'), [])
def op_demote_block(e, G, a):    e.call(e.getattr(G, 'demote_block'), [G.fields['blocklist'][a[0]].fields['name']])
def op_rename_blocks(e, G, a):
    n = [b.fields['name'] for b in G.fields['blocklist']]
    e.call(e.getattr(G, 'rename_blocks'), [dict((n[i], n[j]) if isinstance(j, int) else (n[i], j) for i, j in a)])
def op_reorder(e, G, a):
    n = [b.fields['name'] for b in G.fields['blocklist']]
    e.call(e.getattr(G, 'reorder'), [[n[k] for k in a] if a else n[::-1]])


def p_gridop(e, arg):
    start, op, a = arg
    tag = '[%s%s on %s]' % (op, tuple(a), start if isinstance(start, str) else 'fromgeo %dx%dx%d atm%d' % start)
    def prog(e):
        if start == 'four_blocks':
            G = make_grid(e)
        else:
            from contracts.c04 import build_rect
            geo, S = build_rect(e, start[0], start[1], start[2], start[3], 0, 1)
            G = e.call(e.getattr(e.call(e.load_module('t2grids').globals['t2grid'], []), 'fromgeo'), [geo])
        pre = [v for g in GROUPS for v in wf(G)[g]]
        if pre:
            e.fail('requires:start_grid_is_well_formed' + tag, '; '.join(pre[:3])); return
        e.prove(True, 'requires:start_grid_is_well_formed' + tag)
        nb0 = len(G.fields['blocklist'])
        try:
            if op == 'plus':
                G = e.call(e.getattr(G, '__add__'), [_other_grid(e, list(a), 'other')])
            elif op == 'embed':
                sub = _other_grid(e, list(a[1:]), 'other')
                g = e.load_module('t2grids').globals
                con = e.call(g['t2connection'], [[G.fields['blocklist'][a[0]], sub.fields['blocklist'][0]], 1, [e.sym_real('ed1', 0), e.sym_real('ed2', 0)], e.sym_real('earea', 0), 0])
                G = e.call(e.getattr(G, 'embed'), [sub, con])
                if G is None:             # refused: the host block is not big enough (the grids are left as they were)
                    e.prove(True, 'post:operation_completes' + tag); return
            else:
                globals()['op_' + op](e, G, a)
        except PyExc as ex:
            e.fail('post:operation_completes' + tag, 'raises %s: %s' % (ex.cls, ex.msg)); return
        e.prove(True, 'post:operation_completes' + tag)
        post = wf(G)
        for g in GROUPS:
            if post[g]:
                e.fail('post:%s%s' % (g, tag), '; '.join(post[g][:3]))
            else:
                e.prove(True, 'post:%s%s' % (g, tag))
        if op in ('rename_blocks', 'reorder', 'demote_block', 'rename_rocktype', 'sort_rocktypes'):
            e.prove(len(G.fields['blocklist']) == nb0, 'post:no_block_is_lost' + tag)
    e.explore(prog, 'gridop')


def p_gridop_sequence(e, arg):
    """Two or three real editing operations in a row: the invariant holds after each."""
    start, steps = arg
    tag = '[%s on %s]' % (' then '.join('%s%s' % (op, tuple(a)) for op, a in steps), start if isinstance(start, str) else 'fromgeo %dx%dx%d atm%d' % start)
    def prog(e):
        if start == 'four_blocks':
            G = make_grid(e)
        else:
            from contracts.c04 import build_rect
            geo, S = build_rect(e, start[0], start[1], start[2], start[3], 0, 1)
            G = e.call(e.getattr(e.call(e.load_module('t2grids').globals['t2grid'], []), 'fromgeo'), [geo])
        for k, (op, a) in enumerate(steps):
            try:
                if op == 'plus':
                    G = e.call(e.getattr(G, '__add__'), [_other_grid(e, list(a), 'oth%d' % k)])
                else:
                    globals()['op_' + op](e, G, a)
            except PyExc as ex:
                e.fail('post:operation_%d_completes' % (k + 1) + tag, 'raises %s: %s' % (ex.cls, ex.msg)); return
            post = wf(G)
            for g in GROUPS:
                name = 'post:%s_after_operation_%d%s' % (g, k + 1, tag)
                if post[g]:
                    e.fail(name, '; '.join(post[g][:3]))
                else:
                    e.prove(True, name)
    e.explore(prog, 'gridop_sequence')


FB = 'four_blocks'
RG = (2, 1, 2, 0)
OPS = [(FB, 'add_block', ('  e 1',)), (FB, 'delete_block', (0,)), (FB, 'delete_block', (3,)), (FB, 'delete_connection', (1,)), (FB, 'add_connection', (0, 2)),
       (FB, 'add_rocktype', ('rock2',)), (FB, 'rename_rocktype', ('newrk',)), (FB, 'clean_rocktypes', ()), (FB, 'sort_rocktypes', ()), (FB, 'demote_block', (0,)), (FB, 'demote_block', (2,)),
       (FB, 'rename_blocks', ((0, 1), (1, 0))), (FB, 'rename_blocks', ((0, 1), (1, 2), (2, 0))), (FB, 'rename_blocks', ((0, '  z 9'),)), (FB, 'reorder', (3, 2, 1, 0)),
       (FB, 'plus', ('  p 1', '  q 1')), (FB, 'embed', (1, '  p 1', '  q 1')),
       (RG, 'delete_block', (1,)), (RG, 'delete_block', (0,)), (RG, 'demote_block', (1,)), (RG, 'rename_blocks', ((1, 2), (2, 1))), (RG, 'reorder', ()), (RG, 'add_block', ('  z 9',)),
       (RG, 'plus', ('  p 1', '  q 1')), (RG, 'delete_connection', (0,)),
       # the known findings (replacing an object that is in use)
       (FB, 'add_block', (NAMES[0],)), (FB, 'add_rocktype', ('dfalt',)), (FB, 'delete_rocktype', ('dfalt',)), (FB, 'plus', (NAMES[1], '  q 1'))]
SEQUENCES = [(FB, (('delete_block', (0,)), ('add_block', ('  a 1',)), ('add_connection', (0, 3)))), (FB, (('rename_blocks', ((0, 1), (1, 0))), ('reorder', (3, 2, 1, 0)), ('demote_block', (0,)))),
             (FB, (('add_rocktype', ('rock2',)), ('rename_rocktype', ('newrk',)), ('clean_rocktypes', ()))), (FB, (('plus', ('  p 1', '  q 1')), ('delete_block', (4,)), ('rename_blocks', ((0, '  z 9'),)))),
             (RG, (('delete_block', (1,)), ('reorder', ()), ('add_block', ('  z 9',)))), (RG, (('rename_blocks', ((1, 2), (2, 1))), ('delete_connection', (0,)), ('demote_block', (1,))))]
PROGRAMS = [('p_gridop', x) for x in OPS] + [('p_gridop_sequence', x) for x in SEQUENCES]


def replay(obname, model, result):
    if result['program'] != 'p_gridop':
        return None
    name = obname.split('[')[0]
    clause = 'completes' if name == 'post:operation_completes' else ('count' if name == 'post:no_block_is_lost' else (name[5:] if name.startswith('post:') and name[5:] in GROUPS else None))
    if clause is None:
        return None
    return ("from contracts.c08_native import native_gridop\nok, detail = native_gridop(%r, %r, %r)\n") % (result['arg'], model or {}, clause)
