"""C13 - initial-conditions file round trip: the real t2incon.write / t2incon.read over a
record tape (the text of a record is C02's subject: t2incon_format_specification is one of
its four tables), plus the block-name lemmas the file trip needs."""
import string
import z3
from pyvc.engine import Obj, NVec, Builtin
from pyvc import library as L
from pyvc.values import PyExc, SymStr, z_and, z_or, z_not
from contracts.c01 import Tape

FUNCS = ['t2incons.t2incon.write', 't2incons.t2incon.read', 't2incons.t2incon.add_incon', 't2incons.t2incon.empty',
         'mulgrids.fix_blockname', 'mulgrids.unfix_blockname', 'mulgrids.valid_blockname']


def _new_incon(e, tape):
    m = e.load_module('t2incons').globals
    e.opaque['t2incon_parser'] = lambda eng, args, kwargs: tape.obj
    inc = Obj(m['t2incon'])
    inc.fields.update(simulator='TOUGH2', read_function=None, timing=None)
    e.call(e.get_function('t2incons.t2incon.empty'), [inc])
    return inc, m


def p_roundtrip(e, arg):
    nvars, react, timing, reset = arg
    tag = '[vars=%d,%s,%s,%s]' % (nvars, 'TOUGHREACT' if react else 'TOUGH2', 'timing' if timing else 'no-timing', 'reset' if reset else 'keep')
    def prog(e):
        spec = e.load_module('t2incons').globals['t2incon_format_specification']
        tape = Tape(e, spec)
        inc, m = _new_incon(e, tape)
        if react:
            inc.fields['simulator'] = 'TOUGHREACT'
        names = ['  a 1', ' bc12', 'ATM 0']
        blocks = []
        for k, n in enumerate(names):
            var = [e.sym_real('x%d_%d' % (k, j)) for j in range(nvars)]
            por = e.sym_real('por%d' % k) if k != 1 else None
            perm = NVec([e.sym_real('k%d_%d' % (k, j)) for j in range(3)]) if (react and k != 2) else None
            nseq, nadd = (e.sym_int('nseq%d' % k, 1), e.sym_int('nadd%d' % k, 1)) if k == 0 else (None, None)
            b = e.call(m['t2blockincon'], [var, n, por, perm, nseq, nadd])
            e.call(e.get_function('t2incons.t2incon.add_incon'), [inc, b])
            blocks.append(b)
        if timing:
            inc.fields['timing'] = {'kcyc': e.sym_int('kcyc', 0), 'iter': e.sym_int('iter', 0), 'nm': e.sym_int('nm', 0),
                                    'tstart': e.sym_real('tstart'), 'sumtim': e.sym_real('sumtim')}
        e.call(e.get_function('t2incons.t2incon.write'), [inc, 'x.incon', reset])
        # the writer's variable records tile each block's list in records of at most 4
        recs = [r for r in tape.recs if r[0] == 'rec' and r[1] == 'incon2']
        e.prove(len(recs) == 3 * (-(-nvars // 4)) and all(1 <= len(r[2]) <= 4 for r in recs), 'post:variables_written_four_per_line' + tag)
        tape2 = tape
        tape2.rewind()
        inc2, _ = _new_incon(e, tape2)
        inc2.fields['simulator'] = 'TOUGH2'
        try:
            e.call(e.get_function('t2incons.t2incon.read'), [inc2, 'x.incon', nvars])
        except PyExc as ex:
            e.fail('post:read_accepts_what_write_produced' + tag, 'raises %s: %s' % (ex.cls, ex.msg))
            return
        e.prove(not tape2.errors, 'post:read_accepts_what_write_produced' + tag)
        bl = inc2.fields['_blocklist']
        ok = len(bl) == 3 and [b.fields['block'] for b in bl] == names
        e.prove(ok, 'post:same_blocks_in_same_order' + tag)
        if not ok:
            return
        for k, (a, b) in enumerate(zip(blocks, bl)):
            e.prove(L.equals(e, list(b.fields['variable']), list(a.fields['variable'])) is True, 'post:primary_variables_preserved' + tag)
            e.prove(L.equals(e, b.fields['porosity'], a.fields['porosity']) is True, 'post:porosity_preserved' + tag)
            pa, pb = a.fields['permeability'], b.fields['permeability']
            e.prove((pa is None and pb is None) or (pa is not None and pb is not None and L.equals(e, list(pa.items), list(pb.items)) is True), 'post:permeability_triple_preserved' + tag)
            e.prove(L.equals(e, b.fields['nseq'], a.fields['nseq']) is True and L.equals(e, b.fields['nadd'], a.fields['nadd']) is True, 'post:sequence_numbers_preserved' + tag)
        e.prove(inc2.fields['simulator'] == ('TOUGHREACT' if react else 'TOUGH2'), 'post:simulator_flavour_preserved' + tag)
        if timing and not reset:
            t1, t2 = inc.fields['timing'], inc2.fields['timing']
            e.prove(t2 is not None and all(L.equals(e, t1[k], t2[k]) is True for k in t1), 'post:restart_timing_preserved_when_not_reset' + tag)
        else:
            e.prove(inc2.fields['timing'] is None, 'post:no_timing_after_reset_or_without_timing' + tag)
    e.explore(prog, 'roundtrip')


LDB = string.ascii_letters + string.digits + ' '


def p_names_survive(e, convention):
    """Every block name the library generates under this convention is a fixed point of one
    write (unfix) / read (fix) cycle and passes the reader's validity check in its written form."""
    from contracts.c17 import _geo
    def prog(e):
        g = _geo(e, convention)
        cl, ll = g.fields['colname_length'], g.fields['layername_length']
        col = e.sym_str('col', length=cl, alphabet=LDB)
        lay = e.sym_str('lay', length=ll, alphabet=LDB)
        cs, ls = SymStr.of(col), SymStr.of(lay)
        isd = L.V.is_digit_c
        letter = lambda c: z3.Or(z3.And(c >= 65, c <= 90), z3.And(c >= 97, c <= 122))
        def numeral(chars):      # right-justified decimal numeral
            n = len(chars)
            conds = [isd(chars[-1])]
            for k in range(n - 1):
                conds.append(z3.Or(isd(chars[k]), z3.And(chars[k] == 32, *[chars[j] == 32 for j in range(k)])))
                # no leading zero (str(num) never has one)
                conds.append(z3.Not(z3.And(chars[k] == 48, *[chars[j] == 32 for j in range(k)])))
            return z3.And(*conds)
        def lettername(chars):   # right- or left-justified letters (spaces allowed as padding)
            return z3.And(z3.Or(*[letter(c) for c in chars]), *[z3.Or(letter(c), c == 32) for c in chars])
        if convention in (0, 3):
            e.assume(z3.And(lettername(cs.chars), numeral(ls.chars)) if convention == 0 else z3.And(lettername(cs.chars), lettername(ls.chars)))
        elif convention == 1:
            e.assume(z3.And(lettername(ls.chars), numeral(cs.chars)))
        else:
            e.assume(z3.And(lettername(ls.chars), numeral(cs.chars)))
        bn = e.call(e.get_function('mulgrids.mulgrid.block_name'), [g, lay, col])
        fix, unfix, valid = [e.get_function('mulgrids.' + n) for n in ('fix_blockname', 'unfix_blockname', 'valid_blockname')]
        w = e.call(unfix, [bn])
        r = e.call(fix, [w])
        tag = '[conv%d]' % convention
        e.prove(L.equals(e, r, bn), 'lemma:generated_block_name_survives_write_read' + tag)
        if convention in (0, 1):
            # names end in a digit under conventions 0 and 1: the reader's validity check accepts the written form
            v = e.call(valid, [w])
            e.prove(v, 'lemma:written_form_of_generated_name_is_valid' + tag)
    e.explore(prog, 'names_survive')


def programs(tier):
    ps = []
    for nvars in (1, 2, 3, 4, 5, 8, 9, 12):
        for react in (False, True):
            for timing, reset in ((False, True), (True, True), (True, False)):
                ps.append(('p_roundtrip', (nvars, react, timing, reset)))
    ps += [('p_names_survive', c) for c in range(4)]
    return ps


def replay(obname, model, result):
    if result['program'] == 'p_roundtrip':
        nvars, react, timing, reset = result['arg']
        return ("import os, tempfile, shutil\nimport numpy as np\nfrom t2incons import *\n"
                "nvars, react, timing, reset = %r\n"
                "tmp = tempfile.mkdtemp(dir='/var/tmp'); f = os.path.join(tmp, 'x.incon')\n"
                "inc = t2incon(); inc.simulator = 'TOUGHREACT' if react else 'TOUGH2'\n"
                "names = ['  a 1', ' bc12', 'ATM 0']\n"
                "for k, n in enumerate(names):\n"
                "    var = [(-1) ** j * (1.5 + k) * 10. ** (j - 3) for j in range(nvars)]\n"
                "    perm = np.array([1e-15, 0.0, 3e-15]) if (react and k != 2) else None\n"
                "    inc.add_incon(t2blockincon(var, n, 0.1 * (k + 1) if k != 1 else None, perm, 7 if k == 0 else None, 3 if k == 0 else None))\n"
                "if timing: inc.timing = {'kcyc': 120, 'iter': 480, 'nm': 5, 'tstart': 0.0, 'sumtim': 1.5e9}\n"
                "try:\n"
                "    inc.write(f, reset=reset); r = t2incon(f, num_variables=nvars); r.write(f + '2', reset=reset)\n"
                "    ok = [b.block for b in r] == names and all(list(a.variable) == list(b.variable) and a.porosity == b.porosity and a.nseq == b.nseq and a.nadd == b.nadd and ((a.permeability is None) == (b.permeability is None)) and (a.permeability is None or list(a.permeability) == list(b.permeability)) for a, b in zip(inc, r))\n"
                "    ok = ok and r.simulator == inc.simulator and ((r.timing == inc.timing) if (timing and not reset) else r.timing is None) and open(f).read() == open(f + '2').read()\n"
                "    detail = 'wrote %%r read %%r timing %%r simulator %%r' %% ([repr(b) for b in inc], [repr(b) for b in r], r.timing, r.simulator)\n"
                "except Exception as ex:\n"
                "    ok, detail = False, '%%s: %%s' %% (type(ex).__name__, ex)\n"
                "finally: shutil.rmtree(tmp)\n") % ((nvars, react, timing, reset),)
    m = model or {}
    if result['program'] == 'p_names_survive' and 'col' in m:
        return ("from mulgrids import *\n"
                "g = mulgrid(convention=%d); b = g.block_name(%r, %r)\n"
                "w = unfix_blockname(b); r = fix_blockname(w)\n"
                "ok = (r == b) and (%d not in (0, 1) or valid_blockname(w))\n"
                "detail = 'block %%r written %%r read %%r valid %%r' %% (b, w, r, valid_blockname(w))\n") % (result['arg'], m['lay'], m['col'], result['arg'])
    return None
