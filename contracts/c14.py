"""C14 - IAPWS-97: obligations on the real functions of IAPWS97.py (symx: exact algebra
over the real function bodies; z3 nlsat for range obligations).  Every function here is a
'plain' obligation function: f(repo, arg, timeout_ms) -> list of obligation dicts."""
import time
from fractions import Fraction

FUNCS = ['IAPWS97.power_array', 'IAPWS97.cowat', 'IAPWS97.supst', 'IAPWS97.super', 'IAPWS97.sat',
         'IAPWS97.tsat', 'IAPWS97.b23p', 'IAPWS97.b23t', 'IAPWS97.region', 'IAPWS97.visc']
POWER_TABLES = ['pc1', 'tc1', 'tc2', 'pc2', 'tsc2', 'tc3', 'dc3', 'ticv', 'tscv', 'dscv']


def plain(f):
    f.plain = True
    return f


def ob(name, status, t0, detail='', backend='sympy', model=None):
    return {'name': name, 'status': status, 'detail': detail, 'seconds': time.time() - t0, 'backend': backend, 'model': model}


class UseBeforeDef(Exception):
    pass


class Undef(object):
    """Content of np.zeros entries in strict mode: reading one in arithmetic is an error
    (the real code would silently read 0.0)."""
    def _bad(self, *a):
        raise UseBeforeDef('an entry that power_array never wrote is used')
    __mul__ = __rmul__ = __add__ = __radd__ = __sub__ = __rsub__ = __truediv__ = __rtruediv__ = __neg__ = __pow__ = _bad


def _load(repo, backend, strict=True):
    from symx.loader import load, NPShim
    import numpy as _np
    ns, sha = load('IAPWS97', repo, backend)
    if strict:
        shim = ns['np']
        def zeros(n, dtype=None):
            a = _np.empty(n, dtype=object)
            for i in range(n):
                a[i] = Undef()
            return a
        shim.zeros = zeros
    return ns


@plain
def o_power_arrays(repo, arg, timeout_ms):
    import sympy as sp
    from symx.loader import SympyBackend
    ns = _load(repo, SympyBackend())
    x = sp.Symbol('x')
    out = []
    for name in POWER_TABLES:
        t0 = time.time()
        tab = ns[name]
        try:
            p = ns['power_array'](x, tab)
            bad = []
            for k in [c[0] for c in tab] + [0, 1, -1]:
                if isinstance(p[k], Undef) or sp.simplify(p[k] - x ** k) != 0:
                    bad.append((k, str(p[k])))
            if bad:
                out.append(ob('identity:power_array[%s]' % name, 'failed', t0, 'entries that are not value**k: %r' % bad[:4], model={'table': name, 'k': bad[0][0]}))
            else:
                out.append(ob('identity:power_array[%s]' % name, 'discharged', t0))
        except UseBeforeDef as e:
            out.append(ob('identity:power_array[%s]' % name, 'failed', t0, str(e), model={'table': name, 'k': None}))
    return out


def _zero(sp, expr):
    num = sp.numer(sp.together(expr))
    return sp.expand(num) == 0


@plain
def o_single_potential(repo, which, timeout_ms):
    """d,u (or p,u) returned by the real function derive from ONE potential: the mixed
    partial derivatives of the two first derivatives recovered from the returned pair agree."""
    import sympy as sp
    from symx.loader import SympyBackend
    b = SympyBackend()
    ns = _load(repo, b)
    R, tc_k = ns['rconst'], ns['tc_k']
    t0 = time.time()
    name = 'identity:single_potential[%s]' % which
    try:
        if which in ('cowat', 'supst'):
            pstar, tstar = (ns['pstar1'], ns['tstar1']) if which == 'cowat' else (ns['pstar2'], ns['tstar2'])
            pi, tau = sp.symbols('pi tau', positive=True)
            t = tstar / tau - tc_k
            p = pi * pstar
            r = ns[which](t, p)
            if r is None:
                return [ob(name, 'failed', t0, 'returns None on its main path', model={'function': which})]
            d, u = r
            tk = t + tc_k
            A = pstar / (R * tk * d)                  # gamma_pi
            B = (u / (R * tk) + pi * A) / tau         # gamma_tau
            ok = _zero(sp, sp.diff(A, tau) - sp.diff(B, pi))
        else:
            delta, tau = sp.symbols('delta tau', positive=True)
            t = ns['tstar3'] / tau - tc_k
            d = delta * ns['dstar3']
            p, u = ns['super'](d, t)
            tk = t + tc_k
            A = p / (d * R * tk * delta)              # phi_delta
            B = u / (R * tk * tau)                    # phi_tau
            ok = _zero(sp, sp.diff(A, tau) - sp.diff(B, delta))
        conds = '; '.join('%s is %s' % (c, v) for c, v in b.log.conditions)
        if ok:
            return [ob(name, 'discharged', t0, 'on the path ' + conds)]
        return [ob(name, 'failed', t0, 'mixed partial derivatives differ', model={'function': which})]
    except UseBeforeDef as e:
        return [ob(name, 'failed', t0, str(e), model={'function': which})]


def _z3ns(repo):
    from symx.loader import Z3Backend
    b = Z3Backend()
    return _load(repo, b, strict=False), b


def _check(z3, hyps, claim, timeout_ms):
    s = z3.Solver()
    s.set('timeout', timeout_ms)
    for h in hyps:
        s.add(h)
    s.add(z3.Not(claim))
    r = s.check()
    if r == z3.unsat:
        return 'discharged', None
    if r == z3.sat:
        return 'failed', s.model()
    return 'undecided', None


def _path_ob(z3, b, name, dom, t0name, timeout_ms, var):
    """The path the obligations speak about (every recorded guard taken) covers the whole domain."""
    t0 = time.time()
    conds = [c if taken else z3.Not(c) for c, taken in b.log.conditions]
    if not conds:
        return ob(name, 'discharged', t0, 'no guard on the path', backend='z3-nlsat')
    st, m = _check(z3, dom, z3.And(*conds), timeout_ms)
    return ob(name, st, t0, backend='z3-nlsat', model={t0name: _val(z3, m, var)} if m else None)


def _val(z3, m, x):
    v = m.eval(x, model_completion=True)
    try:
        if z3.is_algebraic_value(v):
            v = v.approx(30)
        return float(Fraction(v.numerator_as_long(), v.denominator_as_long()))
    except Exception:
        return str(v)


def F_curve(n, beta, theta):
    """IAPWS-97 equation 29 (the implicit saturation-line equation), from the standard."""
    return (beta ** 2 * theta ** 2 + n[0] * beta ** 2 * theta + n[1] * beta ** 2 + n[2] * beta * theta ** 2 +
            n[3] * beta * theta + n[4] * beta + n[5] * theta ** 2 + n[6] * theta + n[7])


@plain
def o_saturation(repo, arg, timeout_ms):
    """sat and tsat lie on the one algebraic saturation curve of the standard; ranges."""
    import z3
    out = []
    # ---- sat on the curve, and its range
    ns, b = _z3ns(repo)
    n = ns['nr4']
    t = z3.Real('t')
    p = ns['sat'](t)
    tk = t + ns['tc_k']
    theta = tk + n[8] / (tk - n[9])
    beta = z3.Real('beta')
    hyp = [t >= b.R('0.01'), t <= ns['tcritical']] + b.side + [beta >= 0, beta * beta * beta * beta * ns['pstar4'] == p]
    out.append(_path_ob(z3, b, 'range:sat_defined_on_closed_interval', [t >= b.R('0.01'), t <= ns['tcritical']], 't', timeout_ms, t))
    t0 = time.time()
    st, m = _check(z3, hyp, F_curve(n, beta, theta) == 0, timeout_ms)
    out.append(ob('identity:sat_on_saturation_curve', st, t0, backend='z3-nlsat', model={'t': _val(z3, m, t)} if m else None))
    t0 = time.time()
    st, m = _check(z3, [t >= b.R('0.01'), t <= ns['tcritical']], z3.And(*b.domain), timeout_ms)
    out.append(ob('safety:sat_sqrt_domain', st, t0, backend='z3-nlsat', model={'t': _val(z3, m, t)} if m else None))
    # range: needed for tsat(sat(t)) to be defined.  Split at 373.9459 so that the recorded
    # finding (the last 1e-4 K below the critical point) stays separate from everything else.
    split = b.R('373.9459')
    t0 = time.time()
    st, m = _check(z3, [t >= b.R('0.01'), t <= split] + b.side, z3.And(p >= b.R('611.213'), p <= ns['pcritical']), timeout_ms)
    out.append(ob('range:sat_within_tsat_domain[0.01..373.9459]', st, t0, backend='z3-nlsat',
                  model={'t': _val(z3, m, t), 'sat': _val(z3, m, p)} if m else None))
    t0 = time.time()
    st, m = _check(z3, [t >= split, t <= ns['tcritical']] + b.side, z3.And(p >= b.R('611.213'), p <= ns['pcritical']), timeout_ms)
    out.append(ob('range:sat_within_tsat_domain[373.9459..tcritical]', st, t0, backend='z3-nlsat',
                  model={'t': _val(z3, m, t), 'sat': _val(z3, m, p)} if m else None))
    # monotone: sat is increasing (two temperatures)
    # ---- tsat on the curve
    ns2, b2 = _z3ns(repo)
    n = ns2['nr4']
    pp = z3.Real('p')
    tt = ns2['tsat'](pp)
    tk2 = tt + ns2['tc_k']
    theta2 = tk2 + n[8] / (tk2 - n[9])
    beta2 = z3.Real('beta')
    hyp2 = [pp >= b2.R('611.213'), pp <= ns2['pcritical']] + b2.side + [beta2 >= 0, beta2 * beta2 * beta2 * beta2 * ns2['pstar4'] == pp]
    out.append(_path_ob(z3, b2, 'range:tsat_defined_on_closed_interval', [pp >= b2.R('611.213'), pp <= ns2['pcritical']], 'p', timeout_ms, pp))
    t0 = time.time()
    st, m = _check(z3, hyp2, F_curve(n, beta2, theta2) == 0, timeout_ms)
    out.append(ob('identity:tsat_on_saturation_curve', st, t0, backend='z3-nlsat', model={'p': _val(z3, m, pp)} if m else None))
    t0 = time.time()
    st, m = _check(z3, [pp >= b2.R('611.213'), pp <= ns2['pcritical']] + b2.side[:2], z3.And(*b2.domain[:2]), timeout_ms)
    out.append(ob('safety:tsat_sqrt_domain', st, t0, backend='z3-nlsat', model={'p': _val(z3, m, pp)} if m else None))
    t0 = time.time()
    st, m = _check(z3, hyp2[:2] + b2.side, z3.And(tt >= b2.R('0'), tt <= ns2['tcritical'] + b2.R('0.001')), timeout_ms)
    out.append(ob('range:tsat_within_sat_domain', st, t0, backend='z3-nlsat', model={'p': _val(z3, m, pp)} if m else None))
    return out


@plain
def o_b23(repo, arg, timeout_ms):
    import z3
    ns, b = _z3ns(repo)
    out = []
    t = z3.Real('t')
    p = ns['b23p'](t)
    t2 = ns['b23t'](p)
    tol = b.R('0.000001')
    out.append(_path_ob(z3, b, 'range:b23_forms_defined_on_closed_boundary', [t >= 350, t <= 590], 't', timeout_ms, t))
    t0 = time.time()
    st, m = _check(z3, [t >= 350, t <= 590] + b.side, z3.And(t2 - t <= tol, t - t2 <= tol), timeout_ms)
    out.append(ob('identity:b23t_inverts_b23p[350..590,tol 1e-6]', st, t0, backend='z3-nlsat', model={'t': _val(z3, m, t)} if m else None))
    t0 = time.time()
    st, m = _check(z3, [t >= 350, t <= 590], z3.And(*b.domain), timeout_ms)
    out.append(ob('safety:b23t_sqrt_domain_on_boundary', st, t0, backend='z3-nlsat', model={'t': _val(z3, m, t)} if m else None))
    ns, b = _z3ns(repo)
    pp = z3.Real('p')
    tt = ns['b23t'](pp)
    p2 = ns['b23p'](tt)
    lo, hi = ns['b23p'](b.R('350')), ns['b23p'](b.R('590'))
    t0 = time.time()
    st, m = _check(z3, [pp >= lo, pp <= hi] + b.side, z3.And(p2 - pp <= b.R('1'), pp - p2 <= b.R('1')), timeout_ms)
    out.append(ob('identity:b23p_inverts_b23t[tol 1 Pa]', st, t0, backend='z3-nlsat', model={'p': _val(z3, m, pp)} if m else None))
    return out


@plain
def o_viscosity(repo, arg, timeout_ms):
    """visc > 0 reduces to s0(tau) > 0 on the temperature range (sqrt > 0, exp > 0, constants > 0):
    the structure is checked on the real visc body, the sign by nlsat on the real tables."""
    import z3, sympy as sp
    from symx.loader import SympyBackend
    out = []
    bs = SympyBackend()
    ns = _load(repo, bs)
    d, t = sp.symbols('d t', positive=True)
    t0 = time.time()
    v = ns['visc'](d, t)
    tau = (t + ns['tc_k']) / ns['tcriticalk']
    tip = ns['power_array'](1 / tau, ns['ticv'])
    s0 = sum(h * x for h, x in zip(ns['h0v'], tip[0:4]))
    exps = list(v.atoms(sp.exp))
    struct = len(exps) == 1 and _zero(sp, v / exps[0] - ns['mustar'] * 100 * sp.sqrt(tau) / s0)
    out.append(ob('identity:visc_is_positive_factor_over_s0_times_exp', 'discharged' if struct else 'failed', t0,
                  model=None if struct else {'function': 'visc'}))
    nz, b = _z3ns(repo)
    x = z3.Real('x')           # x = 1/tau, tau in [273.16/647.096, 1073.15/647.096]
    tip = nz['power_array'](x, nz['ticv'])
    s0z = sum(h * y for h, y in zip(nz['h0v'], tip[0:4]))
    lo = nz['tcriticalk'] / b.R('1073.15')
    hi = nz['tcriticalk'] / b.R('273.16')
    t0 = time.time()
    st, m = _check(z3, [x >= lo, x <= hi], s0z > 0, timeout_ms)
    out.append(ob('range:visc_dilute_gas_denominator_positive', st, t0, backend='z3-nlsat', model={'inv_tau': _val(z3, m, x)} if m else None))
    return out


def p_region(e, _arg=None):
    """pyvc program: region(t,p) names the region whose equation is valid (spec written from
    the IAPWS-97 region definitions, with the real sat and b23p as the boundary values)."""
    from pyvc import library as L
    import z3 as z
    def prog(e):
        t = e.sym_real('t')
        p = e.sym_real('p')
        mod = e.load_module('IAPWS97')
        # sat is opaque here (its own obligations are in o_saturation): an uninterpreted value
        psat = z.Real('psat')
        e.opaque['sat'] = lambda eng, args, kwargs: psat
        r = e.call(mod.globals['region'], [t, p])
        inbox = z.And(t >= z.RealVal('0.01'), t <= 800, p >= 0, p <= 100000000)
        if r is None:
            e.prove(z.Not(inbox), 'post:region_none_exactly_outside_the_box')
            return
        e.prove(inbox, 'post:region_none_exactly_outside_the_box')
        if e.branch(t <= 350):
            want1 = p > psat
            e.prove(z.If(want1, z.IntVal(1), z.IntVal(2)) == r, 'post:region_matches_validity[t<=350]')
        elif e.branch(t <= 590):
            pb = e.call(mod.globals['b23p'], [t])
            e.prove(z.If(p > pb, z.IntVal(3), z.IntVal(2)) == r, 'post:region_matches_validity[350<t<=590]')
        else:
            e.prove(r == 2, 'post:region_matches_validity[t>590]')
    e.explore(prog, 'region')


PLAIN = [('o_power_arrays', None), ('o_single_potential', 'cowat'), ('o_single_potential', 'supst'),
         ('o_single_potential', 'super'), ('o_saturation', None), ('o_b23', None), ('o_viscosity', None),
         ('p_region', None)]


def replay(obname, model, result):
    m = model or {}
    if 't' in m and 'sat' in obname:
        return ("import IAPWS97 as W\n"
                "t = %r\n"
                "cands = [t, W.tcritical, W.tcritical - 1e-9, 0.01, 100., 350., 373.9459]\n"
                "ok, detail = True, ''\n"
                "for x in cands:\n"
                "    if not (0.01 <= x <= W.tcritical): continue\n"
                "    p = W.sat(x)\n"
                "    back = W.tsat(p) if p is not None else None\n"
                "    if p is None or back is None or abs(back - x) > 1e-6:\n"
                "        ok, detail = False, 'sat(%%r) = %%r, tsat(sat) = %%r (pcritical = %%r)' %% (x, p, back, W.pcritical)\n"
                "        break\n") % (m['t'],)
    if 't' in m and 'b23' in obname:
        return ("import IAPWS97 as W\n"
                "ok, detail = True, ''\n"
                "for x in [%r, 350., 590., 400., 500.]:\n"
                "    back = W.b23t(W.b23p(x))\n"
                "    if back is None or abs(back - x) > 1e-6:\n"
                "        ok, detail = False, 'b23t(b23p(%%r)) = %%r' %% (x, back); break\n") % (m['t'],)
    if 'region' in obname and 't' in m and 'p' in m:
        def fl(v): return 'float(__import__("fractions").Fraction(%r)/__import__("fractions").Fraction(%r))' % (v['num'], v['den']) if isinstance(v, dict) else repr(v)
        return ("import IAPWS97 as W\n"
                "t, p = %s, %s\n"
                "r = W.region(t, p)\n"
                "if not (0.01 <= t <= 800. and 0. <= p <= 100.e6): want = None\n"
                "elif t <= 350.: want = 1 if p > W.sat(t) else 2\n"
                "elif t <= 590.: want = 3 if p > W.b23p(t) else 2\n"
                "else: want = 2\n"
                "ok = (r == want)\n"
                "detail = 'region(%%r, %%r) = %%r, the valid equation is region %%r' %% (t, p, r, want)\n") % (fl(m['t']), fl(m['p']))
    if 'function' in m and m['function'] in ('cowat', 'supst', 'super'):
        f = m['function']
        # finite-difference replay of the single-potential identity on the real function
        return ("import IAPWS97 as W\n"
                "from mpmath import mp, mpf, diff\n" if False else
                "import IAPWS97 as W\n"
                "R, f = W.rconst, %r\n"
                "def AB(x, y):\n"
                "    if f == 'super':\n"
                "        t = W.tstar3 / y - W.tc_k; d = x * W.dstar3; p, u = W.super(d, t); tk = t + W.tc_k\n"
                "        return p / (d * R * tk * x), u / (R * tk * y)\n"
                "    ps, ts = (W.pstar1, W.tstar1) if f == 'cowat' else (W.pstar2, W.tstar2)\n"
                "    t = ts / y - W.tc_k; p = x * ps; d, u = getattr(W, f)(t, p); tk = t + W.tc_k\n"
                "    A = ps / (R * tk * d); return A, (u / (R * tk) + x * A) / y\n"
                "pts = {'cowat': [(3.0, 3.0), (0.5, 4.0), (5.0, 2.5)], 'supst': [(0.5, 0.8), (5.0, 0.7), (20.0, 0.6)], 'super': [(1.0, 0.95), (0.6, 0.9), (1.5, 1.0)]}[f]\n"
                "ok, detail = True, ''\n"
                "for x, y in pts:\n"
                "    h = 1e-5\n"
                "    dA = (AB(x, y + h)[0] - AB(x, y - h)[0]) / (2 * h)\n"
                "    dB = (AB(x + h, y)[1] - AB(x - h, y)[1]) / (2 * h)\n"
                "    if abs(dA - dB) > 1e-5 * (abs(dA) + abs(dB) + 1e-12):\n"
                "        ok, detail = False, '%%s at reduced (%%r, %%r): dA/dtau = %%r, dB/dx = %%r' %% (f, x, y, dA, dB); break\n") % (f,)
    return None


# ---- tsat(sat(t)) == t over the reals, as a chain of lemmas ---------------------------------
#
# sat(t)  : theta = tk + n9/(tk - n10);  x0 = 2C/(-B + sqrt(B^2 - 4AC));  p = pstar * x0^4
# tsat(p) : beta = p^(1/4);  D = 2G/(-F - sqrt(F^2 - 4EG));  tk = (n10 + D - sqrt((n10 + D)^2 - 4(n9 + n10 D)))/2
# with A,B,C quadratic in theta and E,F,G quadratic in beta: the same bilinear form (lemma L2 = identity:*_on_saturation_curve).
#   L1  x0 > 0 on the interval, so beta == x0
#   L3  2 E theta + F >= 0, so theta is the root D that tsat's formula selects          (generic lemma G1)
#   L4  2 tk - n10 - theta <= 0, so tk is the root that tsat's last formula selects      (generic lemma G2)
#   S   tsat's returned value is exactly those two root formulas (structural identity on the real body)


def _sat_parts(ns, b, t):
    """Run the real sat over z3 reals and recover x0 from the single sqrt it takes."""
    z = b.z3
    n = ns['nr4']
    tk = t + ns['tc_k']
    theta = tk + n[8] / (tk - n[9])
    A = theta * theta + n[0] * theta + n[1]
    B = n[2] * theta * theta + n[3] * theta + n[4]
    C = n[5] * theta * theta + n[6] * theta + n[7]
    return tk, theta, A, B, C


@plain
def o_saturation_inverse(repo, arg, timeout_ms):
    import z3
    out = []
    ns, b = _z3ns(repo)
    n = ns['nr4']
    t = z3.Real('t')
    p = ns['sat'](t)
    s1 = z3.Real('sqrt!1')
    tk, theta, A, B, C = _sat_parts(ns, b, t)
    lo, hi = b.R('0.01'), b.R('373.9459')
    dom = [t >= lo, t <= hi] + b.side
    x0 = 2 * C / (-B + s1)
    # structural: the real sat returns pstar * x0^4 with s1 = sqrt(B^2 - 4AC)
    t0 = time.time()
    st, m = _check(z3, dom + [-B + s1 != 0], z3.And(p == ns['pstar4'] * x0 * x0 * x0 * x0), timeout_ms)
    out.append(ob('identity:sat_is_pstar_times_x0_to_the_fourth', st, t0, backend='z3-nlsat', model={'t': _val(z3, m, t)} if m else None))
    t0 = time.time()
    st, m = _check(z3, dom, z3.And(-B + s1 != 0, tk - n[9] != 0), timeout_ms)
    out.append(ob('safety:sat_denominators_nonzero', st, t0, backend='z3-nlsat', model={'t': _val(z3, m, t)} if m else None))
    t0 = time.time()
    st, m = _check(z3, dom + [-B + s1 != 0], x0 > 0, timeout_ms)
    out.append(ob('lemma:L1_x0_positive', st, t0, backend='z3-nlsat', model={'t': _val(z3, m, t)} if m else None))
    beta = z3.Real('beta')
    E = beta * beta + n[2] * beta + n[5]
    F = n[0] * beta * beta + n[3] * beta + n[6]
    G = n[1] * beta * beta + n[4] * beta + n[7]
    link = [beta * (-B + s1) == 2 * C, -B + s1 != 0]          # beta == x0
    t0 = time.time()
    st, m = _check(z3, dom + link, 2 * E * theta + F >= 0, timeout_ms)
    out.append(ob('lemma:L3_theta_is_the_root_tsat_selects', st, t0, backend='z3-nlsat', model={'t': _val(z3, m, t)} if m else None))
    t0 = time.time()
    # the denominator -F - sqrt(F^2 - 4EG) equals -2 (E theta + F) on the curve (with L3): it must not vanish
    st, m = _check(z3, dom + link, E * theta + F != 0, timeout_ms)
    out.append(ob('safety:tsat_first_root_denominator_nonzero_on_the_curve', st, t0, backend='z3-nlsat', model={'t': _val(z3, m, t)} if m else None))
    t0 = time.time()
    st, m = _check(z3, [t >= lo, t <= hi], 2 * tk - n[9] - theta <= 0, timeout_ms)
    out.append(ob('lemma:L4_tk_is_the_root_tsat_selects', st, t0, backend='z3-nlsat', model={'t': _val(z3, m, t)} if m else None))
    # generic root-selection lemmas (free reals)
    e, f, g, x, s, d = z3.Reals('e f g x s d')
    t0 = time.time()
    st, m = _check(z3, [e * x * x + f * x + g == 0, 2 * e * x + f >= 0, s >= 0, s * s == f * f - 4 * e * g, -f - s != 0, d * (-f - s) == 2 * g], d == x, timeout_ms)
    out.append(ob('lemma:G1_root_2g_over_minus_f_minus_sqrt_is_the_plus_root', st, t0, backend='z3-nlsat'))
    t0 = time.time()
    st, m = _check(z3, [e * x * x + f * x + g == 0], z3.And(f * f - 4 * e * g >= 0, f * f - 4 * e * g == (2 * e * x + f) * (2 * e * x + f)), timeout_ms)
    out.append(ob('lemma:G0_discriminant_nonnegative_at_a_root', st, t0, backend='z3-nlsat'))
    t0 = time.time()
    st, m = _check(z3, [e * x * x + f * x + g == 0, 2 * e * x + f >= 0, s >= 0, s * s == f * f - 4 * e * g, e * x + f != 0], -f - s != 0, timeout_ms)
    out.append(ob('lemma:G3_denominator_is_minus_two_e_x_plus_f', st, t0, backend='z3-nlsat'))
    k, th, n9, n10, r = z3.Reals('k th n9 n10 r')
    t0 = time.time()
    st, m = _check(z3, [k - n10 != 0, th == k + n9 / (k - n10), 2 * k - n10 - th <= 0, r >= 0, r * r == (n10 + th) * (n10 + th) - 4 * (n9 + n10 * th)],
                   (n10 + th - r) / 2 == k, timeout_ms)
    out.append(ob('lemma:G2_temperature_is_the_minus_root', st, t0, backend='z3-nlsat'))
    # structural: the real tsat is exactly these two root formulas, with beta the fourth root of p / pstar
    ns2, b2 = _z3ns(repo)
    pp = z3.Real('p')
    tt = ns2['tsat'](pp)
    ys = [z3.Real('sqrt!%d' % k) for k in (1, 2, 3, 4)]
    bt = ys[1]
    E2 = bt * bt + n[2] * bt + n[5]
    F2 = n[0] * bt * bt + n[3] * bt + n[6]
    G2 = n[1] * bt * bt + n[4] * bt + n[7]
    D = 2 * G2 / (-F2 - ys[2])
    t0 = time.time()
    ok_struct = len(b2.side) == 4
    st, m = _check(z3, [pp >= b2.R('611.213'), pp <= ns2['pcritical']] + b2.side + [-F2 - ys[2] != 0],
                   z3.And(tt == (n[9] + D - ys[3]) / 2 - ns2['tc_k'], ys[0] * ys[0] == pp / ns2['pstar4'], ys[1] * ys[1] == ys[0],
                          ys[2] * ys[2] == F2 * F2 - 4 * E2 * G2, ys[3] * ys[3] == (n[9] + D) * (n[9] + D) - 4 * (n[8] + n[9] * D)), timeout_ms)
    if not ok_struct:
        st = 'failed'
    out.append(ob('identity:tsat_is_the_two_root_formulas_of_the_standard', st, t0, backend='z3-nlsat', model={'p': _val(z3, m, pp)} if m else None))
    return out


PLAIN.append(('o_saturation_inverse', None))
