"""C19 - the real t2data.transfer_from between models on real rectangular geometries: onto an identical geometry every
generator (name, block, type, rate, table) and the total generation are preserved; onto a geometry whose columns are
halved, with preserve_generation_totals, every source generator's rate is split among the mapped blocks / columns so
that the total is preserved."""
import z3
from pyvc.engine import Obj, NVec
from pyvc import library as L
from pyvc.values import PyExc, Unsupported, to_real
from contracts.c04 import _valid

FUNCS = ['t2data.t2data.transfer_from', 't2data.t2data.transfer_generators_from', 't2data.t2data.transfer_rocktypes_from', 'mulgrids.mulgrid.block_mapping', 'mulgrids.mulgrid.column_mapping']


def _geo(e, dx, dy, dz, oz, atm):
    m = e.load_module('mulgrids').globals
    return e.call(e.getattr(e.call(m['mulgrid'], []), 'rectangular'), [list(dx), list(dy), list(dz)], {'atmos_type': atm, 'origin': [0, 0, oz]})


def p_transfer_model(e, arg):
    atm, finer, preserve = arg
    tag = '[atm%d, %s, totals %s]' % (atm, 'target columns halved' if finer else 'identical geometry', 'preserved' if preserve else 'not preserved')
    def prog(e):
        md, mg = e.load_module('t2data').globals, e.load_module('t2grids').globals
        dx = [e.sym_real('dx%d' % k) for k in range(2)]; dy = [e.sym_real('dy0')]; dz = [e.sym_real('dz%d' % k) for k in range(2)]; oz = e.sym_real('oz')
        for v in dx + dy + dz:
            e.assume(v > 0)
        sgeo = _geo(e, dx, dy, dz, oz, atm)
        tgeo = _geo(e, [dx[0] / 2, dx[0] / 2, dx[1]] if finer else dx, dy, dz, oz, atm)
        src = e.call(md['t2data'], [])
        src.fields['grid'] = e.call(e.getattr(e.call(mg['t2grid'], []), 'fromgeo'), [sgeo])
        names = sgeo.fields['block_name_list']
        natm = {0: 1, 1: 2, 2: 0}[atm]
        b_int, b_bot = names[natm + 1], names[-2]       # the top-layer block of column b and the bottom block of column a (the column that is halved)
        gens = [dict(name='gen 1', block=b_int, type='MASS', gx=e.sym_real('gx1'), ex=e.sym_real('ex1')),
                dict(name='gen 2', block=b_bot, type='HEAT', gx=e.sym_real('gx2')),
                dict(name='gen 3', block=b_bot, type='MASS', ltab=2, gx=None, ex=None, time=[e.sym_real('t%d' % k) for k in range(2)], rate=[e.sym_real('r%d' % k) for k in range(2)])]
        for kw in gens:
            e.call(e.getattr(src, 'add_generator'), [e.call(md['t2generator'], [], kw)])
        src.fields['parameter']['print_block'] = b_bot
        tgt = e.call(md['t2data'], [])
        try:
            e.call(e.getattr(tgt, 'transfer_from'), [src, sgeo, tgeo], {'preserve_generation_totals': preserve})
        except PyExc as ex:
            e.fail('post:transfer_completes' + tag, 'raises %s: %s' % (ex.cls, ex.msg)); return
        e.prove(True, 'post:transfer_completes' + tag)
        sg, tgl = src.fields['generatorlist'], tgt.fields['generatorlist']
        tb = dict((b.fields['name'], b) for b in tgt.fields['grid'].fields['blocklist'])
        if not finer:
            ok = len(tgl) == len(sg)
            for a, b in zip(sg, tgl):
                ok = ok and all(a.fields[k] == b.fields[k] for k in ('name', 'block', 'type', 'ltab')) and \
                    all((a.fields[k] is None and b.fields[k] is None) or _valid(e, to_real(a.fields[k]) == to_real(b.fields[k])) for k in ('gx', 'ex')) and \
                    len(a.fields['rate']) == len(b.fields['rate']) and all(_valid(e, to_real(x) == to_real(y)) for x, y in zip(a.fields['rate'], b.fields['rate'])) and \
                    all(_valid(e, to_real(x) == to_real(y)) for x, y in zip(a.fields['time'], b.fields['time']))
            e.prove(ok, 'post:every_generator_preserved_on_an_identical_geometry' + tag)
            e.prove(all(tgt.fields['generator'].get((g.fields['block'], g.fields['name'])) is g for g in tgl) and len(tgt.fields['generator']) == len(tgl), 'post:generator_lookup_consistent' + tag)
            e.prove(tgt.fields['parameter']['print_block'] == b_bot, 'post:print_block_transferred' + tag)
        # total generation per source generator: constant rates and every table entry
        mp = e.call(e.getattr(sgeo, 'block_mapping'), [tgeo])
        for k, a in enumerate(sg):
            mine = [b for b in tgl if b.fields['name'] == a.fields['name'] and b.fields['type'] == a.fields['type']]
            want = sorted(t for t in tgeo.fields['block_name_list'] if mp.get(t) == a.fields['block'])
            e.prove(len(mine) >= 1 and sorted(b.fields['block'] for b in mine) == want and all(n in tb for n in want), 'post:every_source_generator_lands_exactly_in_the_blocks_mapped_to_its_block' + tag)
            if finer and not preserve:
                continue             # without total preservation the rate is scaled by target volume / source volume: totals follow the volumes
            if a.fields['gx'] is not None:
                tot = sum([to_real(b.fields['gx']) for b in mine], z3.RealVal(0))
                e.prove(_valid(e, tot == to_real(a.fields['gx'])), 'post:total_generation_preserved' + tag)
            for j in range(len(a.fields['rate'])):
                tot = sum([to_real(b.fields['rate'][j]) for b in mine], z3.RealVal(0))
                e.prove(_valid(e, tot == to_real(a.fields['rate'][j])), 'post:total_generation_preserved' + tag)
        # the source model is not altered
        e.prove(len(sg) == 3 and [g.fields['block'] for g in sg] == [b_int, b_bot, b_bot], 'frame:source_generators_unaltered' + tag)
    e.explore(prog, 'transfer_model')


PROGRAMS = [('p_transfer_model', (0, False, False)), ('p_transfer_model', (1, False, True)), ('p_transfer_model', (2, False, False)), ('p_transfer_model', (0, True, True)), ('p_transfer_model', (2, True, True)),
            ('p_transfer_model', (1, True, False))]


def replay(obname, model, result):
    if result['program'] != 'p_transfer_model':
        return None
    atm, finer, preserve = result['arg']
    m = model or {}
    def val(k, d):
        v = m.get(k)
        x = (float(int(v['num'])) / float(int(v['den']))) if isinstance(v, dict) else (float(v) if v is not None else d)
        return x if x else d
    return ("import numpy as np\nfrom mulgrids import *\nfrom t2data import *\nfrom t2grids import *\n"
            "dx, dy, dz, oz = %r, [%r], %r, %r\natm, finer, preserve = %r, %r, %r\n"
            "sg = mulgrid().rectangular(dx, dy, dz, atmos_type=atm, origin=[0., 0., oz])\n"
            "tg = mulgrid().rectangular([dx[0] / 2, dx[0] / 2, dx[1]] if finer else dx, dy, dz, atmos_type=atm, origin=[0., 0., oz])\n"
            "src = t2data(); src.grid = t2grid().fromgeo(sg)\nn = sg.block_name_list; na = sg.num_atmosphere_blocks\n"
            "src.add_generator(t2generator(name='gen 1', block=n[na + 1], type='MASS', gx=%r, ex=%r)); src.add_generator(t2generator(name='gen 2', block=n[-2], type='HEAT', gx=%r))\n"
            "src.add_generator(t2generator(name='gen 3', block=n[-2], type='MASS', ltab=2, gx=None, ex=None, time=[0., 1.], rate=%r))\n"
            "tgt = t2data(); tgt.transfer_from(src, sg, tg, preserve_generation_totals=preserve)\n"
            "ok, detail = True, ''\n"
            "for a in src.generatorlist:\n"
            "    mine = [b for b in tgt.generatorlist if b.name == a.name and b.type == a.type]\n"
            "    mp = sg.block_mapping(tg)\n"
            "    want = sorted(t for t in tg.block_name_list if mp.get(t) == a.block)\n"
            "    if not mine or sorted(b.block for b in mine) != want: ok, detail = False, 'generator %%r in blocks %%r, mapped blocks %%r' %% (a.name, [b.block for b in mine], want)\n"
            "    if finer and not preserve: continue\n"
            "    if a.gx is not None and abs(sum(b.gx for b in mine) - a.gx) > 1e-9 * max(1., abs(a.gx)): ok, detail = False, 'total of %%r: %%r -> %%r' %% (a.name, a.gx, sum(b.gx for b in mine))\n"
            "    for j in range(len(a.rate)):\n"
            "        if abs(sum(b.rate[j] for b in mine) - a.rate[j]) > 1e-9 * max(1., abs(a.rate[j])): ok, detail = False, 'table total of %%r differs' %% a.name\n"
            "if not finer and [(g.name, g.block, g.type, g.gx) for g in tgt.generatorlist] != [(g.name, g.block, g.type, g.gx) for g in src.generatorlist]: ok, detail = False, 'generators differ on an identical geometry'\n") % (
                [val('dx0', 10.), val('dx1', 25.)], val('dy0', 15.), [val('dz0', 4.), val('dz1', 6.)], val('oz', 100.), atm, finer, preserve,
                val('gx1', 2.5), val('ex1', 1.e5), val('gx2', 7.5), [val('r0', 1.), val('r1', 2.)])
