"""C12 - contracts on the real point-location leaves (geometry.py, mulgrids.py)."""
import z3
from pyvc.engine import Obj, NVec
from pyvc import library as L
from pyvc.values import PyExc, to_real, z_and, z_or, z_not, to_bool

FUNCS = ['mulgrids.mulgrid.column_containing_point', 'mulgrids.mulgrid.block_name_containing_point', 'mulgrids.column.contains_point', 'mulgrids.column.near_point', 'mulgrids.mulgrid.column_quadtree', 'mulgrids.quadtree.search',
         'geometry.line_intersects_rectangle', 'geometry.in_rectangle', 'geometry.rectangles_intersect', 'geometry.sub_rectangles', 'geometry.bounds_of_points',
         'mulgrids.layer.contains_elevation', 'mulgrids.mulgrid.layer_containing_elevation', 'mulgrids.quadtree.leaf',
         'geometry.in_polygon']


def _rect(e, tag):
    lo = NVec([e.sym_real(tag + 'x0'), e.sym_real(tag + 'y0')])
    hi = NVec([e.sym_real(tag + 'x1'), e.sym_real(tag + 'y1')])
    e.assume(z3.And(lo.items[0] <= hi.items[0], lo.items[1] <= hi.items[1]))
    return [lo, hi]


def _inside(p, r):
    return z3.And(r[0].items[0] <= p.items[0], p.items[0] <= r[1].items[0], r[0].items[1] <= p.items[1], p.items[1] <= r[1].items[1])


def p_rectangles(e, _a=None):
    def prog(e):
        g = e.load_module('geometry').globals
        r = _rect(e, 'r')
        q = _rect(e, 'q')
        p = NVec([e.sym_real('px'), e.sym_real('py')])
        res = e.call(g['in_rectangle'], [p, r])
        e.prove(to_bool(res) == _inside(p, r), 'post:in_rectangle_is_closed_box_membership')
        ri = e.call(g['rectangles_intersect'], [r, q])
        ri2 = e.call(g['rectangles_intersect'], [q, r])
        e.prove(to_bool(ri) == to_bool(ri2), 'post:rectangles_intersect_symmetric')
        # <=> a common point exists (the two interval conditions)
        common = z3.And(z3.If(r[0].items[0] >= q[0].items[0], r[0].items[0], q[0].items[0]) <= z3.If(r[1].items[0] <= q[1].items[0], r[1].items[0], q[1].items[0]),
                        z3.If(r[0].items[1] >= q[0].items[1], r[0].items[1], q[0].items[1]) <= z3.If(r[1].items[1] <= q[1].items[1], r[1].items[1], q[1].items[1]))
        e.prove(to_bool(ri) == common, 'post:rectangles_intersect_iff_common_point')
        # soundness used by the quadtree wave search: a point in both boxes implies intersect
        e.prove(z3.Implies(z3.And(_inside(p, r), _inside(p, q)), to_bool(ri)), 'lemma:common_point_implies_intersect')
    e.explore(prog, 'rectangles')


def p_sub_rectangles(e, _a=None):
    def prog(e):
        g = e.load_module('geometry').globals
        r = _rect(e, 'r')
        subs = e.call(g['sub_rectangles'], [r])
        e.prove(len(subs) == 4, 'post:four_sub_rectangles')
        p = NVec([e.sym_real('px'), e.sym_real('py')])
        ins = [_inside(p, [s[0], s[1]]) for s in subs]
        e.prove(z3.And(*[z3.Implies(i, _inside(p, r)) for i in ins]), 'post:sub_rectangles_inside_parent')
        e.prove(z3.Implies(_inside(p, r), z3.Or(*ins)), 'lemma:sub_rectangles_cover_parent')
        # overlap only on the centre lines
        cx = (r[0].items[0] + r[1].items[0]) / 2
        cy = (r[0].items[1] + r[1].items[1]) / 2
        for a in range(4):
            for b in range(a + 1, 4):
                e.prove(z3.Implies(z3.And(ins[a], ins[b]), z3.Or(p.items[0] == cx, p.items[1] == cy)), 'lemma:sub_rectangles_overlap_only_on_centre_lines')
    e.explore(prog, 'sub_rectangles')


def p_bounds_of_points(e, n):
    def prog(e):
        g = e.load_module('geometry').globals
        pts = [NVec([e.sym_real('x%d' % k), e.sym_real('y%d' % k)]) for k in range(n)]
        bl, tr = e.call(g['bounds_of_points'], [pts])
        box = [bl, tr]
        e.prove(z3.And(*[_inside(p, box) for p in pts]), 'post:bounding_box_contains_every_point[n=%d]' % n)
        e.prove(z3.And(z3.Or(*[p.items[0] == bl.items[0] for p in pts]), z3.Or(*[p.items[1] == bl.items[1] for p in pts]),
                       z3.Or(*[p.items[0] == tr.items[0] for p in pts]), z3.Or(*[p.items[1] == tr.items[1] for p in pts])),
                'post:bounding_box_sides_attained[n=%d]' % n)
    e.explore(prog, 'bounds_of_points')


def p_layer_containing_elevation(e, _a=None):
    """Returns the layer whose closed elevation range contains z (the first such from the
    top), never the atmosphere layer, None iff no underground layer contains z; for z not
    on a layer boundary that layer is unique."""
    from contracts.c04 import make_geo, NL
    def prog(e):
        geo = make_geo(e, 0)
        z = e.sym_real('z')
        lay = e.call(e.get_function('mulgrids.mulgrid.layer_containing_elevation'), [geo, z])
        ls = geo.fields['layerlist']
        within = [z3.And(l.fields['bottom'] <= z, z <= l.fields['top']) for l in ls]
        if lay is None:
            e.prove(z3.Not(z3.Or(*within[1:])), 'post:no_layer_iff_outside_every_underground_layer')
        else:
            k = [i for i, l in enumerate(ls) if l is lay]
            e.prove(len(k) == 1 and k[0] >= 1, 'post:never_the_atmosphere_layer')
            e.prove(within[k[0]], 'post:returned_layer_contains_elevation')
            off_boundary = z3.And(*[z3.And(z != l.fields['bottom'], z != l.fields['top']) for l in ls[1:]])
            others = [within[i] for i in range(1, len(ls)) if i != k[0]]
            e.prove(z3.Implies(off_boundary, z3.Not(z3.Or(*others))), 'lemma:containing_layer_unique_off_boundaries')
    e.explore(prog, 'layer_containing_elevation')


def p_quadtree_leaf(e, _a=None):
    """quadtree.leaf on a two-level tree built by the real constructor from 3 elements with
    symbolic centres: returns a node whose bounds contain the point, None iff the point is
    outside the root bounds."""
    def prog(e):
        m = e.load_module('mulgrids').globals
        root_bounds = [NVec([0, 0]), NVec([8, 8])]
        elts = []
        for k in range(3):
            c = NVec([e.sym_real('cx%d' % k, 0, 8), e.sym_real('cy%d' % k, 0, 8)])
            elts.append(Obj(None, centre=c, name='e%d' % k))
        # keep the tree shallow: the three centres lie in different quadrants
        e.assume(z3.And(elts[0].fields['centre'].items[0] < 4, elts[0].fields['centre'].items[1] < 4,
                        elts[1].fields['centre'].items[0] > 4, elts[1].fields['centre'].items[1] < 4,
                        elts[2].fields['centre'].items[0] > 4, elts[2].fields['centre'].items[1] > 4))
        qt = e.call(m['quadtree'], [root_bounds, elts])
        # every element is placed in exactly one child (cover lemma at work)
        placed = sum(len(ch.fields['elements']) for ch in qt.fields['child'])
        e.prove(placed == 3, 'post:quadtree_places_every_element')
        p = NVec([e.sym_real('px'), e.sym_real('py')])
        leaf = e.call(e.get_function('mulgrids.quadtree.leaf'), [qt, p])
        if leaf is None:
            e.prove(z3.Not(_inside(p, root_bounds)), 'post:leaf_none_iff_outside_root')
        else:
            b = leaf.fields['bounds']
            e.prove(_inside(p, [b[0], b[1]]), 'post:leaf_bounds_contain_point')
            e.prove(_inside(p, root_bounds), 'post:leaf_none_iff_outside_root')
    e.explore(prog, 'quadtree_leaf')


def p_in_polygon_triangle(e, _a=None):
    """in_polygon on a counter-clockwise triangle: a point strictly inside (all three edge
    cross products positive, away from the tolerance band) is reported inside, a point
    strictly outside the bounding box is reported outside."""
    def prog(e):
        g = e.load_module('geometry').globals
        A = NVec([0, 0]); B = NVec([e.sym_real('bx', 1, 10), e.sym_real('by', -5, 5)]); C = NVec([e.sym_real('cx', -5, 10), e.sym_real('cy', 1, 10)])
        P = NVec([e.sym_real('px'), e.sym_real('py')])
        def cross(o, a, b):
            return (a.items[0] - o.items[0]) * (b.items[1] - o.items[1]) - (a.items[1] - o.items[1]) * (b.items[0] - o.items[0])
        e.assume(cross(A, B, C) > 0)
        tol = z3.RealVal('0.001')
        # (the point's y may coincide with a vertex's y: the ray then passes through a vertex)
        e.assume(z3.And(*[z3.Or(u.items[1] - v.items[1] > tol, v.items[1] - u.items[1] > tol) for u, v in ((A, B), (B, C), (C, A))]))
        r = e.call(g['in_polygon'], [P, [A, B, C]])
        inside = z3.And(cross(A, B, P) > 0, cross(B, C, P) > 0, cross(C, A, P) > 0)
        outside = z3.Or(cross(A, B, P) < 0, cross(B, C, P) < 0, cross(C, A, P) < 0)
        rv = r if isinstance(r, int) else None
        e.prove(z3.Implies(inside, z3.BoolVal(rv == 1)) if rv is not None else z3.Implies(inside, to_real(r) == 1), 'post:in_polygon_strict_interior_of_triangle')
        e.prove(z3.Implies(outside, z3.BoolVal(rv == 0)) if rv is not None else z3.Implies(outside, to_real(r) == 0), 'post:in_polygon_strict_exterior_of_triangle')
    e.explore(prog, 'in_polygon_triangle')


def p_line_rectangle(e, _a=None):
    """line_intersects_rectangle (Cohen-Sutherland clipping): a False answer is sound - no point
    of the segment lies in the rectangle (the direction column_track relies on to skip columns);
    the clipping divisions never divide by zero."""
    def prog(e):
        g = e.load_module('geometry').globals
        r = _rect(e, 'r')
        e.assume(z3.And(r[0].items[0] < r[1].items[0], r[0].items[1] < r[1].items[1]))
        a = NVec([e.sym_real('ax'), e.sym_real('ay')])
        b = NVec([e.sym_real('bx'), e.sym_real('by')])
        try:
            res = e.call(g['line_intersects_rectangle'], [r, [a, b]])
        except PyExc as ex:
            e.fail('safety:line_intersects_rectangle_no_exception', 'raises %s' % ex.cls)
            return
        e.prove(True, 'safety:line_intersects_rectangle_no_exception')
        if res is False:
            lam = e.sym_real('lam', 0, 1)
            p = NVec([a.items[0] + lam * (b.items[0] - a.items[0]), a.items[1] + lam * (b.items[1] - a.items[1])])
            e.prove(z3.Not(_inside(p, r)), 'post:rejected_segment_has_no_point_in_the_rectangle')
        else:
            # accepted: the two end points are not both strictly beyond one and the same side
            sides = [z3.And(a.items[0] < r[0].items[0], b.items[0] < r[0].items[0]), z3.And(a.items[0] > r[1].items[0], b.items[0] > r[1].items[0]),
                     z3.And(a.items[1] < r[0].items[1], b.items[1] < r[0].items[1]), z3.And(a.items[1] > r[1].items[1], b.items[1] > r[1].items[1])]
            e.prove(z3.Not(z3.Or(*sides)), 'post:accepted_segment_is_not_beyond_one_side')
    e.explore(prog, 'line_rectangle')


def p_locate(e, arg):
    """column_containing_point on a real rectangular geometry (symbolic spacings, symbolic point) with each search aid:
    a point strictly inside a column is reported in that column whatever the aid, a point strictly outside the domain
    yields nothing, and the reported column contains the point."""
    shape, aid = arg
    tag = '[%dx%d, aid=%s]' % (shape[0], shape[1], aid if not isinstance(aid, tuple) else '%s%s' % (aid[0], list(aid[1:])))
    from contracts.c04 import build_rect, _valid
    def prog(e):
        geo, S = build_rect(e, shape[0], shape[1], 2, 0, 0, 0)
        nx, ny = shape
        px, py = e.sym_real('px'), e.sym_real('py')
        rect = []
        for j in range(ny):
            for i in range(nx):
                x0 = S['org'][0] + sum(S['dx'][:i]); y0 = S['org'][1] + sum(S['dy'][:j])
                rect.append((x0, x0 + S['dx'][i], y0, y0 + S['dy'][j]))
        cols = geo.fields['columnlist']
        kw = {}
        if isinstance(aid, tuple) and aid[0] == 'guess':
            kw['guess'] = cols[aid[1]]
        elif aid == 'bounds':
            kw['bounds'] = [NVec([rect[0][0], rect[0][2]]), NVec([rect[-1][1], rect[-1][3]])]
        elif isinstance(aid, tuple) and aid[0] == 'subset':
            kw['columns'] = [cols[k] for k in aid[1:]]
        elif aid == 'quadtree':
            kw['qtree'] = e.call(e.getattr(geo, 'column_quadtree'), [])
        try:
            r = e.call(e.getattr(geo, 'column_containing_point'), [NVec([px, py])], kw)
        except PyExc as ex:
            e.fail('safety:column_containing_point_total' + tag, 'raises %s: %s' % (ex.cls, ex.msg)); return
        tol = z3.RealVal('1/1000000')        # the statement quantifies over points not within a small tolerance of a column edge (in_polygon ignores edges shorter than 1e-6 in y)
        inside = [z3.And(a + tol < px, px < b - tol, c + tol < py, py < d - tol) for (a, b, c, d) in rect]
        searched = range(len(cols)) if not (isinstance(aid, tuple) and aid[0] == 'subset') else aid[1:]
        if r is None:
            e.prove(z3.And(*[z3.Not(inside[k]) for k in searched]), 'post:a_point_strictly_inside_a_searched_column_is_found' + tag)
        else:
            k = [i for i, c in enumerate(cols) if c is r]
            e.prove(len(k) == 1, 'post:the_result_is_a_column_of_the_geometry' + tag)
            a, b, c, d = rect[k[0]]
            e.prove(z3.And(a <= px, px <= b, c <= py, py <= d), 'post:the_reported_column_contains_the_point' + tag)
            e.prove(z3.And(*[z3.Not(inside[j]) for j in searched if j != k[0]]), 'post:a_point_strictly_inside_a_searched_column_is_found' + tag)
            outside = z3.Or(px < rect[0][0], px > rect[-1][1], py < rect[0][2], py > rect[-1][3])
            e.prove(z3.Not(outside), 'post:a_point_outside_the_domain_yields_nothing' + tag)
    e.explore(prog, 'locate')


def p_locate_block(e, arg):
    """block_name_containing_point: the block reported for a 3-D point is the unique block that contains it."""
    shape, atm = arg
    tag = '[%dx%dx%d atm%d]' % (shape + (atm,))
    from contracts.c04 import build_rect, _valid
    def prog(e):
        geo, S = build_rect(e, shape[0], shape[1], shape[2], atm, 0, 1)
        nx, ny, nz = shape
        px, py, pz = e.sym_real('px'), e.sym_real('py'), e.sym_real('pz')
        try:
            r = e.call(e.getattr(geo, 'block_name_containing_point'), [NVec([px, py, pz])])
        except PyExc as ex:
            e.fail('safety:block_name_containing_point_total' + tag, 'raises %s: %s' % (ex.cls, ex.msg)); return
        # the blocks of the statement: column rectangle x [layer bottom, block top), block top = surface in the top block
        contains = {}
        for ci in range(nx * ny):
            i, j = ci % nx, ci // nx
            x0 = S['org'][0] + sum(S['dx'][:i]); y0 = S['org'][1] + sum(S['dy'][:j])
            tol = z3.RealVal('1/1000000')
            incol = z3.And(x0 + tol < px, px < x0 + S['dx'][i] - tol, y0 + tol < py, py < y0 + S['dy'][j] - tol)
            sf = S['surf'][ci]
            for li in range(1, nz + 1):
                bot, top = S['bottoms'][li - 1], S['tops'][li - 1]
                exists = sf > bot
                btop = z3.If(z3.Or(sf <= top, li == 1), sf, top)
                name = e.call(e.getattr(geo, 'block_name'), [geo.fields['layerlist'][li].fields['name'], geo.fields['columnlist'][ci].fields['name']])
                contains[name] = z3.And(incol, exists, bot < pz, pz < btop)
        if r is None:
            e.prove(z3.And(*[z3.Not(c) for c in contains.values()]), 'post:a_point_strictly_inside_a_block_is_reported_in_it' + tag)
        else:
            e.prove(r in contains, 'post:the_result_is_an_underground_block_of_the_geometry' + tag)
            if r in contains:
                e.prove(z3.And(*[z3.Not(c) for n, c in contains.items() if n != r]), 'post:a_point_strictly_inside_a_block_is_reported_in_it' + tag)
    e.explore(prog, 'locate_block')


LOCATE = [((2, 2), None), ((2, 2), ('guess', 0)), ((2, 2), ('guess', 3)), ((2, 2), 'bounds'), ((2, 2), ('subset', 0, 3)), ((3, 1), ('guess', 0)), ((3, 2), None), ((2, 2), 'quadtree')]
PROGRAMS = [('p_locate', a) for a in LOCATE] + [('p_locate_block', ((2, 1, 2), a)) for a in (0, 1, 2)] + [('p_line_rectangle', None), ('p_rectangles', None), ('p_sub_rectangles', None)] + [('p_bounds_of_points', n) for n in (1, 2, 3, 5, 8)] + \
           [('p_layer_containing_elevation', None), ('p_quadtree_leaf', None), ('p_in_polygon_triangle', None)]


LOCATE_THOROUGH = [((3, 3), None), ((3, 3), ('guess', 0)), ((3, 3), ('guess', 4)), ((3, 3), 'quadtree'), ((4, 2), ('subset', 0, 5, 7)), ((4, 1), ('guess', 3)), ((3, 3), 'bounds')]


def programs(tier):
    return PROGRAMS + ([('p_locate', a) for a in LOCATE_THOROUGH] + [('p_locate_block', ((2, 2, 3), a)) for a in (0, 1, 2)] if tier == 'thorough' else [])


def _fl(v):
    return 'float(__import__("fractions").Fraction(%r)/__import__("fractions").Fraction(%r))' % (v['num'], v['den']) if isinstance(v, dict) else repr(v)


def replay(obname, model, result):
    m = model or {}
    prog = result['program']
    if prog == 'p_locate':
        return ("from contracts.c04_native import native_locate\nok, detail = native_locate(%r, %r)\n") % (result['arg'], m)
    if prog == 'p_locate_block':
        return ("from contracts.c04_native import native_locate_block\nok, detail = native_locate_block(%r, %r)\n") % (result['arg'], m)
    if prog == 'p_line_rectangle' and 'ax' in m:
        return ("import numpy as np\nfrom geometry import line_intersects_rectangle\n"
                "r = [np.array([%s, %s]), np.array([%s, %s])]; a = np.array([%s, %s]); b = np.array([%s, %s])\n"
                "try:\n"
                "    res = line_intersects_rectangle(r, [a, b])\n"
                "    pts = [a + l * (b - a) for l in list(np.linspace(0., 1., 2001)) + [%s]]\n"
                "    hit = any(r[0][0] <= p[0] <= r[1][0] and r[0][1] <= p[1] <= r[1][1] for p in pts)\n"
                "    ok = not (res is False and hit)\n"
                "    detail = 'rect %%r segment %%r -> %%r: answer %%r, a point of the segment inside: %%r' %% (r, a, b, res, hit)\n"
                "except Exception as ex:\n"
                "    ok, detail = False, '%%s: %%s' %% (type(ex).__name__, ex)\n") % (tuple(_fl(m[k]) for k in ('rx0', 'ry0', 'rx1', 'ry1', 'ax', 'ay', 'bx', 'by')) + (_fl(m.get('lam', 0)),))
    if prog in ('p_rectangles', 'p_sub_rectangles') and 'rx0' in m:
        q = 'None' if 'qx0' not in m else '[np.array([%s, %s]), np.array([%s, %s])]' % tuple(_fl(m[k]) for k in ('qx0', 'qy0', 'qx1', 'qy1'))
        return ("import numpy as np\nfrom geometry import *\n"
                "r = [np.array([%s, %s]), np.array([%s, %s])]; q = %s; p = np.array([%s, %s])\n"
                "inside = lambda p, r: r[0][0] <= p[0] <= r[1][0] and r[0][1] <= p[1] <= r[1][1]\n"
                "ok = bool(in_rectangle(p, r)) == inside(p, r)\n"
                "subs = sub_rectangles(r)\n"
                "ok = ok and len(subs) == 4 and all((not inside(p, s)) or inside(p, r) for s in subs) and ((not inside(p, r)) or any(inside(p, s) for s in subs))\n"
                "if q is not None:\n"
                "    common = max(r[0][0], q[0][0]) <= min(r[1][0], q[1][0]) and max(r[0][1], q[0][1]) <= min(r[1][1], q[1][1])\n"
                "    ok = ok and bool(rectangles_intersect(r, q)) == common == bool(rectangles_intersect(q, r))\n"
                "detail = 'r=%%r q=%%r p=%%r in_rectangle=%%r subs=%%r' %% (r, q, p, in_rectangle(p, r), subs)\n") % (
                    _fl(m['rx0']), _fl(m['ry0']), _fl(m['rx1']), _fl(m['ry1']), q, _fl(m.get('px', 0)), _fl(m.get('py', 0)))
    if prog == 'p_bounds_of_points' and 'x0' in m:
        n = result['arg']
        pts = '[' + ', '.join('np.array([%s, %s])' % (_fl(m['x%d' % k]), _fl(m['y%d' % k])) for k in range(n)) + ']'
        return ("import numpy as np\nfrom geometry import bounds_of_points\n"
                "pts = %s\nbl, tr = bounds_of_points(pts)\n"
                "ok = all(bl[0] <= p[0] <= tr[0] and bl[1] <= p[1] <= tr[1] for p in pts) and any(p[0] == bl[0] for p in pts) and any(p[1] == bl[1] for p in pts) and any(p[0] == tr[0] for p in pts) and any(p[1] == tr[1] for p in pts)\n"
                "detail = 'bounds %%r %%r' %% (bl, tr)\n") % pts
    if prog == 'p_layer_containing_elevation' and 'z' in m:
        return ("from mulgrids import mulgrid\n"
                "z0, b = %s, [%s, %s, %s]; z = %s\n"
                "dz = [z0 - b[0], b[0] - b[1], b[1] - b[2]]\n"
                "ok, detail = True, 'unrealisable'\n"
                "if all(d > 0 for d in dz):\n"
                "    geo = mulgrid().rectangular([10.], [10.], dz, origin=[0., 0., z0])\n"
                "    lay = geo.layer_containing_elevation(z)\n"
                "    cont = [l for l in geo.layerlist[1:] if l.bottom <= z <= l.top]\n"
                "    ok = (lay is None and not cont) or (lay is not None and lay in cont and lay is not geo.layerlist[0])\n"
                "    detail = 'z=%%r layer=%%r containing=%%r' %% (z, lay, cont)\n") % (_fl(m['z0']), _fl(m['bottom1']), _fl(m['bottom2']), _fl(m['bottom3']), _fl(m['z']))
    if prog == 'p_in_polygon_triangle' and 'px' in m:
        return ("import numpy as np\nfrom geometry import in_polygon\n"
                "A, B, C, P = np.array([0., 0.]), np.array([%s, %s]), np.array([%s, %s]), np.array([%s, %s])\n"
                "cr = lambda o, a, b: (a[0] - o[0]) * (b[1] - o[1]) - (a[1] - o[1]) * (b[0] - o[0])\n"
                "c = [cr(A, B, P), cr(B, C, P), cr(C, A, P)]\n"
                "r = in_polygon(P, [A, B, C])\n"
                "ok = (r == 1) if all(x > 0 for x in c) else ((r == 0) if any(x < 0 for x in c) else True)\n"
                "detail = 'in_polygon(%%r, %%r) = %%r, edge cross products %%r' %% (P, [A, B, C], r, c)\n") % tuple(_fl(m[k]) for k in ('bx', 'by', 'cx', 'cy', 'px', 'py'))
    return None
