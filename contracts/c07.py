"""C07 - cursor arithmetic of t2listing navigation (real methods; read_tables opaque with a
stated frame: it touches the tables, _time, _step and the file position, never _index)."""
import z3
from pyvc.engine import Obj, NVec, Builtin
from pyvc import library as L
from pyvc.values import PyExc, to_real, to_int

FUNCS = ['t2listing.t2listing.set_index', 't2listing.t2listing.set_time', 't2listing.t2listing.set_step',
         't2listing.t2listing.next', 't2listing.t2listing.prev', 't2listing.t2listing.first', 't2listing.t2listing.last']


def make_listing(e, n):
    m = e.load_module('t2listing')
    cls = m.globals['t2listing']
    lst = Obj(cls)
    seeks = []
    fileobj = Obj(None)
    fileobj.fields['seek'] = Builtin('seek', lambda eng, pos, *a: seeks.append(pos))
    reads = []
    # read_tables is bound per simulator in __init__: opaque, frame = {tables, _time, _step, file position}
    lst.fields['read_tables'] = Builtin('read_tables', lambda eng: reads.append(lst.fields['_index']))
    times = [e.sym_real('time%d' % k) for k in range(n)]
    steps = [e.sym_int('step%d' % k) for k in range(n)]
    for k in range(1, n):
        e.assume(times[k - 1] < times[k])
        e.assume(steps[k - 1] < steps[k])
    pos = [e.sym_int('pos%d' % k, 0) for k in range(n)]
    for k in range(1, n):
        e.assume(pos[k - 1] < pos[k])
    lst.fields.update(_file=fileobj, _fullpos=pos, fulltimes=NVec(times), fullsteps=NVec(steps),
                      _index=e.sym_int('index0', 0, n - 1))
    return lst, seeks, reads, times, steps, pos


def _sel(lst_, idx, n):
    """lst_[idx] for symbolic idx in range: ite chain."""
    ex = lst_[n - 1]
    for k in range(n - 2, -1, -1):
        ex = z3.If(idx == k, lst_[k], ex)
    return ex


def p_set_index(e, n):
    tag = '[n=%d]' % n
    def prog(e):
        lst, seeks, reads, times, steps, pos = make_listing(e, n)
        i = e.sym_int('i', -n - 2, n + 2)
        try:
            e.setattr(lst, 'index', i)
        except PyExc as ex:
            e.prove(ex.cls == 'IndexError', 'safety:set_index_only_IndexError' + tag)
            e.prove(z3.Or(i < -n, i >= n), 'raises:set_index_IndexError_exactly_out_of_range' + tag)
            e.prove(L.equals(e, lst.fields['_index'], z3.Int('index0')) is True and not reads, 'post:failed_set_index_leaves_cursor' + tag)
            return
        e.prove(z3.And(i >= -n, i < n), 'raises:set_index_IndexError_exactly_out_of_range' + tag)
        want = z3.If(i < 0, i + n, i)
        e.prove(to_int(lst.fields['_index']) == want, 'post:set_index_normalises_negative_index' + tag)
        e.prove(len(seeks) == 1 and len(reads) == 1, 'post:set_index_seeks_and_reads_once' + tag)
        e.prove(to_int(seeks[0]) == _sel(pos, want, n), 'post:set_index_seeks_to_that_result_set' + tag)
        e.prove(to_int(reads[0]) == want, 'post:tables_read_at_the_new_index' + tag)
    e.explore(prog, 'set_index')


def p_next_prev(e, n):
    tag = '[n=%d]' % n
    def prog(e):
        lst, seeks, reads, times, steps, pos = make_listing(e, n)
        i0 = z3.Int('index0')
        r = e.call(e.get_function('t2listing.t2listing.next'), [lst])
        moved = i0 < n - 1
        e.prove(z3.BoolVal(bool(r)) == moved if isinstance(r, bool) else (L.to_bool(r) == moved), 'post:next_reports_whether_it_moved' + tag)
        e.prove(to_int(lst.fields['_index']) == z3.If(moved, i0 + 1, i0), 'post:next_moves_one_forward_never_past_the_end' + tag)
        i1 = lst.fields['_index']
        r2 = e.call(e.get_function('t2listing.t2listing.prev'), [lst])
        moved2 = to_int(i1) > 0
        e.prove(z3.BoolVal(bool(r2)) == moved2 if isinstance(r2, bool) else (L.to_bool(r2) == moved2), 'post:prev_reports_whether_it_moved' + tag)
        e.prove(to_int(lst.fields['_index']) == z3.If(moved2, to_int(i1) - 1, to_int(i1)), 'post:prev_moves_one_back_never_before_the_start' + tag)
        e.call(e.get_function('t2listing.t2listing.last'), [lst])
        e.prove(L.equals(e, lst.fields['_index'], n - 1), 'post:last_is_index_n_minus_1' + tag)
        e.call(e.get_function('t2listing.t2listing.first'), [lst])
        e.prove(L.equals(e, lst.fields['_index'], 0), 'post:first_is_index_0' + tag)
    e.explore(prog, 'next_prev')


def p_set_time(e, arg):
    n, what = arg
    tag = '[%s,n=%d]' % (what, n)
    def prog(e):
        lst, seeks, reads, times, steps, pos = make_listing(e, n)
        if what == 'time':
            t = e.sym_real('t')
            e.setattr(lst, 'time', t)
            vals = times
            dist = lambda v: z3.If(v - t >= 0, v - t, t - v)
        else:
            t = e.sym_int('s')
            e.setattr(lst, 'step', t)
            vals = steps
            dist = lambda v: z3.If(v - t >= 0, v - t, t - v)
        idx = to_int(lst.fields['_index'])
        e.prove(z3.And(idx >= 0, idx < n), 'post:set_%s_index_in_range%s' % (what, tag))
        chosen = _sel(vals, idx, n)
        e.prove(z3.And(*[dist(chosen) <= dist(v) for v in vals]), 'post:set_%s_selects_nearest_result_set%s' % (what, tag))
        e.prove(z3.Implies(t < vals[0], idx == 0), 'post:set_%s_before_first_selects_first%s' % (what, tag))
        e.prove(z3.Implies(t > vals[-1], idx == n - 1), 'post:set_%s_after_last_selects_last%s' % (what, tag))
        e.prove(z3.And(*[z3.Implies(t == vals[k], idx == k) for k in range(n)]), 'post:set_%s_exact_value_selects_it%s' % (what, tag))
    e.explore(prog, 'set_time')


def p_invariant(e, n):
    """After any of the navigation operations the cursor stays in [0, n): checked for one
    arbitrary operation from an arbitrary in-range cursor (inductive step)."""
    tag = '[n=%d]' % n
    def prog(e):
        lst, seeks, reads, times, steps, pos = make_listing(e, n)
        op = e.sym_int('op', 0, 6)
        i = e.sym_int('i', -n, n - 1)
        t = e.sym_real('t')
        s = e.sym_int('s')
        if e.branch(op == 0): e.call(e.get_function('t2listing.t2listing.first'), [lst])
        elif e.branch(op == 1): e.call(e.get_function('t2listing.t2listing.last'), [lst])
        elif e.branch(op == 2): e.call(e.get_function('t2listing.t2listing.next'), [lst])
        elif e.branch(op == 3): e.call(e.get_function('t2listing.t2listing.prev'), [lst])
        elif e.branch(op == 4): e.setattr(lst, 'index', i)
        elif e.branch(op == 5): e.setattr(lst, 'time', t)
        else: e.setattr(lst, 'step', s)
        idx = to_int(lst.fields['_index'])
        e.prove(z3.And(idx >= 0, idx < n), 'inv-step:cursor_in_range_after_any_operation' + tag)
        if reads:
            e.prove(to_int(reads[-1]) == idx, 'inv-step:tables_last_read_at_the_current_index' + tag)
    e.explore(prog, 'invariant')


PROGRAMS = [('p_set_index', n) for n in (1, 2, 4)] + [('p_next_prev', n) for n in (1, 2, 4)] + \
           [('p_set_time', (n, w)) for n in (1, 2, 4) for w in ('time', 'step')] + [('p_invariant', n) for n in (1, 3)]


def replay(obname, model, result):
    """Replay on a real shipped listing (4 result times): the same cursor contract natively."""
    m = model or {}
    return ("import sys; sys.path.insert(0, '/verif')\n"
            "from bounded.c07_replay import replay_cursor\n"
            "ok, detail = replay_cursor(%r, %r)\n") % (obname, {k: (v if not isinstance(v, dict) else float(int(v['num'])) / float(int(v['den']))) for k, v in m.items()})
