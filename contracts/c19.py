"""C19 - contracts on mulgrid.layer_mapping and mulgrid.block_mapping (real methods) over two
record geometries with symbolic layer elevations, layer centres and column surfaces."""
import z3
from pyvc.engine import Obj, NVec
from pyvc import library as L
from pyvc.values import PyExc, to_real
from contracts.c04 import make_geo, make_col, NL

FUNCS = ['mulgrids.mulgrid.column_mapping', 'mulgrids.mulgrid.layer_mapping', 'mulgrids.mulgrid.block_mapping', 'mulgrids.mulgrid.column_surface_layer',
         'mulgrids.mulgrid.set_column_num_layers', 'mulgrids.mulgrid.block_name']


def _two_geos(e, satm, tatm):
    # make_geo names its symbols identically: build the source first, then rename the target's symbols
    src = make_geo(e, satm)
    src.fields['_block_order'] = None
    # second geometry with its own symbols
    m = e.load_module('mulgrids')
    tgt = Obj(m.globals['mulgrid'])
    tgt.fields.update(_convention=0, _atmosphere_type=tatm)
    e.call(e.get_function('mulgrids.mulgrid.set_secondary_variables'), [tgt])
    laycls = m.globals['layer']
    z0 = e.sym_real('t_z0')
    layers = [Obj(laycls, name=' 0', bottom=z0, centre=z0, top=z0)]
    top = z0
    for i in range(1, 3):
        b = e.sym_real('t_bottom%d' % i)
        c = e.sym_real('t_centre%d' % i)
        e.assume(z3.And(b < c, c < top))
        layers.append(Obj(laycls, name=[' 0', ' 1', ' 2'][i], bottom=b, centre=c, top=top))
        top = b
    tgt.fields.update(layerlist=layers, layer=dict((l.fields['name'], l) for l in layers), columnlist=[], column={}, connectionlist=[],
                      block_order=None, _block_order=None)
    return src, tgt


def p_layer_mapping(e, _a=None):
    def prog(e):
        src, tgt = _two_geos(e, 0, 0)
        mp = e.call(e.get_function('mulgrids.mulgrid.layer_mapping'), [src, tgt])
        e.prove(mp.get(' 0') == ' 0', 'post:surface_layer_maps_to_surface_layer')
        sl = src.fields['layerlist']
        for lay in tgt.fields['layerlist'][1:]:
            nm = mp.get(lay.fields['name'])
            chosen = [l for l in sl[1:] if l.fields['name'] == nm]
            e.prove(len(chosen) == 1, 'post:layer_maps_to_an_underground_source_layer')
            if len(chosen) == 1:
                dist = lambda l: z3.If(l.fields['centre'] - lay.fields['centre'] >= 0, l.fields['centre'] - lay.fields['centre'], lay.fields['centre'] - l.fields['centre'])
                e.prove(z3.And(*[dist(chosen[0]) <= dist(l) for l in sl[1:]]), 'post:mapped_layer_has_the_nearest_centre')
    e.explore(prog, 'layer_mapping')


def p_block_mapping(e, arg):
    satm, tatm = arg
    tag = '[source atm%d,target atm%d]' % (satm, tatm)
    def prog(e):
        src, tgt = _two_geos(e, satm, tatm)
        scol = make_col(e, src, '  a', 's')
        e.assume(scol.fields['_surface'] > src.fields['layerlist'][NL].fields['bottom'])     # the source column has at least one block
        e.call(e.get_function('mulgrids.mulgrid.set_column_num_layers'), [src, scol])
        tcol = make_col(e, tgt, '  a', 't')
        e.assume(tcol.fields['_surface'] > tgt.fields['layerlist'][2].fields['bottom'])
        for g in (src, tgt):
            e.call(e.get_function('mulgrids.mulgrid.setup_block_name_index'), [g])
        # nearest-column search (scipy cKDTree) is external: an uninterpreted total map onto source columns
        e.opaque['mulgrid.column_mapping'] = lambda eng, args, kwargs: dict([('  a', '  a')] + ([(tgt.fields['atmosphere_column_name'], src.fields['atmosphere_column_name'])] if satm == tatm == 0 else []))
        try:
            mp = e.call(e.get_function('mulgrids.mulgrid.block_mapping'), [src, tgt])
        except PyExc as ex:
            e.fail('safety:block_mapping_total' + tag, 'raises %s: %s' % (ex.cls, ex.msg))
            return
        e.prove(set(mp) == set(tgt.fields['block_name_list']), 'post:every_target_block_is_mapped' + tag)
        sblocks = set(src.fields['block_name_list'])
        natm_t = {0: 1, 1: 1, 2: 0}[tatm]
        for bn in tgt.fields['block_name_list'][natm_t:]:
            e.prove(mp[bn] in sblocks, 'post:underground_block_maps_to_an_existing_source_block' + tag)
        if natm_t and satm in (0, 1):
            e.prove(mp[tgt.fields['block_name_list'][0]] == src.fields['block_name_list'][0], 'post:atmosphere_block_maps_to_source_atmosphere_block' + tag)
    e.explore(prog, 'block_mapping')


def p_block_mapping_rect(e, arg):
    """block_mapping between two real rectangular geometries (both built by mulgrid.rectangular run by the executor,
    independent symbolic spacings and elevations, a symbolic surface on the first source column)."""
    (sshape, satm, snsurf), (tshape, tatm) = arg
    tag = '[source %dx%dx%d atm%d, target %dx%dx%d atm%d]' % (sshape + (satm,) + tshape + (tatm,))
    from contracts.c04 import build_rect, _valid
    def prog(e):
        src, S = build_rect(e, sshape[0], sshape[1], sshape[2], satm, 0, snsurf)
        m = e.load_module('mulgrids').globals
        tdx = [e.sym_real('tdx%d' % k) for k in range(tshape[0])]; tdy = [e.sym_real('tdy%d' % k) for k in range(tshape[1])]; tdz = [e.sym_real('tdz%d' % k) for k in range(tshape[2])]
        for v in tdx + tdy + tdz:
            e.assume(v > 0)
        tgt = e.call(e.getattr(e.call(m['mulgrid'], []), 'rectangular'), [tdx, tdy, tdz], {'atmos_type': tatm, 'origin': [3, -7, e.sym_real('toz')]})
        try:
            mp = e.call(e.getattr(src, 'block_mapping'), [tgt])
        except PyExc as ex:
            e.fail('safety:block_mapping_total' + tag, 'raises %s: %s' % (ex.cls, ex.msg)); return
        sf, tf = src.fields, tgt.fields
        e.prove(set(mp) == set(tf['block_name_list']) and len(mp) >= 2, 'post:every_target_block_is_mapped' + tag)
        nt = {0: 1, 1: len(tf['columnlist']), 2: 0}[tatm]
        ns = {0: 1, 1: len(sf['columnlist']), 2: 0}[satm]
        okexists, okcol, oklay, why = True, True, True, ''
        absd = lambda a, b: z3.If(to_real(a) - to_real(b) >= 0, to_real(a) - to_real(b), to_real(b) - to_real(a))
        for b in tf['block_name_list'][nt:]:
            sb = mp.get(b)
            if sb not in sf['block_name_index'] or sf['block_name_index'][sb] < ns:
                okexists, why = False, 'target block %r -> %r' % (b, sb); continue
            tc = tf['column'][e.call(e.getattr(tgt, 'column_name'), [b])]; tl = tf['layer'][e.call(e.getattr(tgt, 'layer_name'), [b])]
            sc = sf['column'][e.call(e.getattr(src, 'column_name'), [sb])]; sl = sf['layer'][e.call(e.getattr(src, 'layer_name'), [sb])]
            d2 = lambda c: sum((to_real(u) - to_real(v)) * (to_real(u) - to_real(v)) for u, v in zip(c.fields['centre'].items, tc.fields['centre'].items))
            if not _valid(e, z3.And(*[d2(sc) <= d2(c) for c in sf['columnlist']])):
                okcol, why = False, 'target block %r: source column %r is not the nearest' % (b, sc.fields['name'])
            # the nearest source layer by centre, moved down to the column's first layer below ground when above the surface
            under = sf['layerlist'][1:]
            surf = to_real(e.getattr(sc, 'surface'))
            ok_any = []
            for cand in under:
                nearest = z3.And(*[absd(cand.fields['centre'], tl.fields['centre']) <= absd(l.fields['centre'], tl.fields['centre']) for l in under])
                above = surf <= to_real(cand.fields['bottom'])
                first_below = [z3.And(to_real(l.fields['bottom']) < surf, *[to_real(u.fields['bottom']) >= surf for u in under[:k]]) for k, l in enumerate(under)]
                is_sl_first = first_below[under.index(sl)]
                ok_any.append(z3.And(nearest, z3.If(above, is_sl_first, cand is sl)))
            if not _valid(e, z3.Or(*ok_any)):
                oklay, why = False, 'target block %r: source layer %r is neither the nearest nor the first below ground' % (b, sl.fields['name'])
        for nm, ok in (('post:underground_block_maps_to_an_existing_underground_source_block', okexists), ('post:source_column_has_the_nearest_centre', okcol),
                       ('post:source_layer_is_the_nearest_or_the_first_below_ground', oklay)):
            if ok:
                e.prove(True, nm + tag)
            else:
                e.fail(nm + tag, why)
        if nt and satm == 0:
            e.prove(all(mp[b] == sf['block_name_list'][0] for b in tf['block_name_list'][:nt]), 'post:atmosphere_blocks_map_to_the_source_atmosphere_block' + tag)
        elif nt and satm == 1:
            ok = True
            for k, b in enumerate(tf['block_name_list'][:nt]):
                ok = ok and mp[b] in sf['block_name_list'][:ns]
                if tatm == 1:       # the atmosphere block above the nearest source column
                    tc = tf['columnlist'][k]
                    sc = sf['column'][e.call(e.getattr(src, 'column_name'), [mp[b]])]
                    d2 = lambda c: sum((to_real(u) - to_real(v)) * (to_real(u) - to_real(v)) for u, v in zip(c.fields['centre'].items, tc.fields['centre'].items))
                    ok = ok and _valid(e, z3.And(*[d2(sc) <= d2(c) for c in sf['columnlist']]))
            e.prove(ok, 'post:atmosphere_blocks_map_to_the_source_atmosphere_block' + tag)
    e.explore(prog, 'block_mapping_rect')


def p_self_identity_rect(e, arg):
    shape, atm = arg
    tag = '[%dx%dx%d atm%d]' % (shape + (atm,))
    from contracts.c04 import build_rect
    def prog(e):
        g, S = build_rect(e, shape[0], shape[1], shape[2], atm, 0, 1)
        mp = e.call(e.getattr(g, 'block_mapping'), [g])
        e.prove(all(mp.get(b) == b for b in g.fields['block_name_list']) and len(mp) == len(g.fields['block_name_list']) and len(mp) >= 4,
                'post:mapping_a_real_geometry_onto_itself_is_the_identity' + tag)
    e.explore(prog, 'self_identity_rect')


def p_self_identity(e, atm):
    def prog(e):
        g = make_geo(e, atm)
        col = make_col(e, g, '  a', '')
        e.assume(col.fields['_surface'] > g.fields['layerlist'][NL].fields['bottom'])
        # pairwise distinct layer centres (stacked layers have them)
        e.call(e.get_function('mulgrids.mulgrid.set_column_num_layers'), [g, col])
        g.fields['block_order'] = None; g.fields['_block_order'] = None
        e.call(e.get_function('mulgrids.mulgrid.setup_block_name_index'), [g])
        e.opaque['mulgrid.column_mapping'] = lambda eng, args, kwargs: dict([('  a', '  a')] + ([(g.fields['atmosphere_column_name'], g.fields['atmosphere_column_name'])] if atm == 0 else []))
        mp = e.call(e.get_function('mulgrids.mulgrid.block_mapping'), [g, g])
        e.prove(all(mp.get(b) == b for b in g.fields['block_name_list']) and len(mp) == len(g.fields['block_name_list']), 'lemma:mapping_a_geometry_onto_itself_is_the_identity[atm%d]' % atm)
    e.explore(prog, 'self_identity')


def p_transfer_incons(e, arg):
    """t2incon.transfer_from (real method) on two one-column record geometries with an explicit
    mapping: every underground target block receives exactly the state of its mapped source block,
    the target atmosphere block(s) follow the 3x3 table (copy / average / broadcast / per column /
    default [1.013e5, 20]), the key set is exactly the target's blocks, the source is not altered."""
    satm, tatm = arg
    tag = '[source atm%d,target atm%d]' % (satm, tatm)
    def prog(e):
        src, tgt = _two_geos(e, satm, tatm)
        scol = make_col(e, src, '  a', 's')
        e.assume(scol.fields['_surface'] > src.fields['layerlist'][1].fields['bottom'])      # full column: 3 blocks
        tcol = make_col(e, tgt, '  a', 't')
        e.assume(tcol.fields['_surface'] > tgt.fields['layerlist'][1].fields['bottom'])
        for g in (src, tgt):
            e.call(e.get_function('mulgrids.mulgrid.set_column_num_layers'), [g, g.fields['columnlist'][0]])
            e.call(e.get_function('mulgrids.mulgrid.setup_block_name_index'), [g])
        m = e.load_module('t2incons').globals
        sinc = Obj(m['t2incon']); tinc = Obj(m['t2incon'])
        for o in (sinc, tinc):
            o.fields.update(simulator='TOUGH2', read_function=None)
            e.call(e.get_function('t2incons.t2incon.empty'), [o])
        svals = {}
        for k, bn in enumerate(src.fields['block_name_list']):
            var = [e.sym_real('s%d_%d' % (k, j)) for j in range(2)]
            svals[bn] = var
            e.call(e.get_function('t2incons.t2incon.add_incon'), [sinc, e.call(m['t2blockincon'], [list(var), bn, e.sym_real('spor%d' % k)])])
        snapshot = dict((bn, (list(sinc.fields['_block'][bn].fields['variable']), sinc.fields['_block'][bn].fields['porosity'], sinc.fields['_block'][bn].fields['block'])) for bn in svals)
        order0 = [b.fields['block'] for b in sinc.fields['_blocklist']]
        sn, tn = src.fields['block_name_list'], tgt.fields['block_name_list']
        natm_s = {0: 1, 1: 1, 2: 0}[satm]; natm_t = {0: 1, 1: 1, 2: 0}[tatm]
        # an arbitrary (symbolic choice of) mapping of underground target blocks onto underground source blocks
        mapping = {}
        for k, bn in enumerate(tn[natm_t:]):
            c = e.sym_int('map%d' % k, 0, len(sn) - natm_s - 1)
            for i in range(len(sn) - natm_s):
                if e.branch(c == i):
                    mapping[bn] = sn[natm_s + i]
                    break
        if natm_t and natm_s: mapping[tn[0]] = sn[0]
        colmapping = {'  a': '  a'}
        try:
            e.call(e.get_function('t2incons.t2incon.transfer_from'), [tinc, sinc, src, tgt, mapping, colmapping])
        except PyExc as ex:
            e.fail('safety:transfer_from' + tag, 'raises %s: %s' % (ex.cls, ex.msg))
            return
        got = dict((b.fields['block'], b) for b in tinc.fields['_blocklist'])
        e.prove(set(got) == set(tn) and len(tinc.fields['_blocklist']) == len(tn) and set(tinc.fields['_block']) == set(tn), 'post:exactly_the_target_blocks_receive_a_state' + tag)
        for bn in tn[natm_t:]:
            ok = bn in got and L.equals(e, list(got[bn].fields['variable']), svals[mapping[bn]]) is True and \
                L.equals(e, got[bn].fields['porosity'], snapshot[mapping[bn]][1]) is True
            e.prove(ok, 'post:underground_block_gets_the_state_of_its_mapped_source_block' + tag)
        if natm_t:
            a = got.get(tn[0])
            if a is None:
                e.prove(False, 'post:atmosphere_state_follows_the_table' + tag)
            elif satm in (0, 1):
                # one source column: copy of / average over the single source atmosphere block
                e.prove(all(_val_eq(e, x, y) for x, y in zip(list(e.iterate(a.fields['variable'])), svals[sn[0]])), 'post:atmosphere_state_follows_the_table' + tag)
            else:
                e.prove([L.concretize(x) if hasattr(L, 'concretize') else x for x in e.iterate(a.fields['variable'])] == [101300, 20], 'post:atmosphere_state_follows_the_table' + tag)
        # the source is unaltered
        same = [b.fields['block'] for b in sinc.fields['_blocklist']] == order0
        for bn, (var, por, blk) in snapshot.items():
            cur = sinc.fields['_block'].get(bn)
            same = same and cur is not None and cur.fields['block'] == blk and L.equals(e, list(cur.fields['variable']), var) is True and L.equals(e, cur.fields['porosity'], por) is True
        e.prove(same, 'frame:source_initial_conditions_unaltered' + tag)
    e.explore(prog, 'transfer_incons')


def _val_eq(e, x, y):
    r = L.equals(e, x, y)
    if isinstance(r, bool):
        return r
    s = z3.Solver(); s.set('timeout', 10000); s.add(*e.pc); s.add(z3.Not(r))
    return s.check() == z3.unsat


PROGRAMS = [('p_transfer_incons', (s, t)) for s in (0, 1, 2) for t in (0, 1, 2)] + [('p_layer_mapping', None)] + [('p_block_mapping', (s, t)) for s in (0, 1, 2) for t in (0, 1, 2) if not (s in (1, 2) and t == 0)] + \
           [('p_self_identity', a) for a in (0, 1, 2)] + \
           [('p_block_mapping_rect', (((2, 1, 3), sa, 1), ((2, 1, 2), ta))) for sa in (0, 1, 2) for ta in (0, 1, 2)] + [('p_block_mapping_rect', (((2, 1, 2), 0, 1), ((3, 1, 2), 1)))] + \
           [('p_self_identity_rect', ((2, 2, 2), a)) for a in (0, 1, 2)]


def programs(tier):
    extra = [('p_block_mapping_rect', (((3, 1, 2), 0, 1), ((3, 1, 2), 1))), ('p_block_mapping_rect', (((2, 2, 2), 1, 1), ((3, 2, 2), 2))), ('p_block_mapping_rect', (((2, 2, 3), 2, 1), ((2, 2, 2), 1))),
             ('p_self_identity_rect', ((3, 2, 3), 0)), ('p_self_identity_rect', ((3, 3, 2), 1))]
    return PROGRAMS + (extra if tier == 'thorough' else [])


def _f(v, d):
    if isinstance(v, dict):
        return float(int(v['num'])) / float(int(v['den']))
    return float(v) if v is not None else d


def replay(obname, model, result):
    m = model or {}
    if result['program'] == 'p_block_mapping_rect':
        return ("from contracts.c04_native import native_block_mapping\nok, detail = native_block_mapping(%r, %r)\n") % (result['arg'], m)
    if result['program'] == 'p_self_identity_rect':
        shape, atm = result['arg']
        return ("from contracts.c04_native import build\ng = build(%r, %r)[0]\nmp = g.block_mapping(g)\n"
                "ok = all(mp.get(b) == b for b in g.block_name_list) and len(mp) == len(g.block_name_list)\ndetail = str([(b, mp.get(b)) for b in g.block_name_list if mp.get(b) != b][:5])\n") % ((shape[0], shape[1], shape[2], atm, 0, 1), m)
    if result['program'] == 'p_transfer_incons':
        satm, tatm = result['arg']
        return ("import numpy as np\nfrom mulgrids import *\nfrom t2incons import *\n"
                "satm, tatm = %d, %d\n"
                "src = mulgrid().rectangular([10.], [10.], [5., 7., 9.], atmos_type=satm)\n"
                "tgt = mulgrid().rectangular([10.], [10.], [4., 6.], atmos_type=tatm)\n"
                "sinc = t2incon()\n"
                "for k, b in enumerate(src.block_name_list): sinc[b] = [1.e5 + k, 20. + k]\n"
                "before = [(b.block, list(b.variable), b.porosity) for b in sinc]\n"
                "ns, nt = src.num_atmosphere_blocks, tgt.num_atmosphere_blocks\n"
                "und_s, und_t = src.block_name_list[ns:], tgt.block_name_list[nt:]\n"
                "mapping = dict((b, und_s[(2 * i + 1) %% len(und_s)]) for i, b in enumerate(und_t))\n"
                "if ns and nt: mapping[tgt.block_name_list[0]] = src.block_name_list[0]\n"
                "tinc = t2incon()\n"
                "try:\n"
                "    tinc.transfer_from(sinc, src, tgt, mapping, {'  a': '  a'})\n"
                "    ok = tinc.blocklist is not None and set(tinc.blocklist) == set(tgt.block_name_list) and len(tinc.blocklist) == len(tgt.block_name_list)\n"
                "    ok = ok and all(list(tinc[b].variable) == list(sinc[mapping[b]].variable) for b in und_t)\n"
                "    if nt: ok = ok and list(tinc[tgt.block_name_list[0]].variable) == (list(sinc[0].variable) if ns else [1.013e5, 20.])\n"
                "    ok = ok and before == [(b.block, list(b.variable), b.porosity) for b in sinc]\n"
                "    detail = 'target blocks %%r got %%r' %% (tgt.block_name_list, [(b.block, list(b.variable)) for b in tinc])\n"
                "except Exception as ex:\n"
                "    ok, detail = False, '%%s: %%s' %% (type(ex).__name__, ex)\n") % (satm, tatm)
    if result['program'] == 'p_block_mapping' and 'z0' in m and 't_z0' in m:
        satm, tatm = result['arg']
        z0, b = _f(m['z0'], 0.), [_f(m['bottom%d' % i], -5. * i) for i in (1, 2, 3)]
        c = [_f(m['centre%d' % i], 0.) for i in (1, 2, 3)]
        tz0, tb = _f(m['t_z0'], 0.), [_f(m['t_bottom%d' % i], -4. * i) for i in (1, 2)]
        tc = [_f(m['t_centre%d' % i], 0.) for i in (1, 2)]
        ss, ts = _f(m.get('surfaces'), z0), _f(m.get('surfacet'), tz0)
        return ("import numpy as np\nfrom mulgrids import *\n"
                "src = mulgrid().rectangular([10.], [10.], [%r, %r, %r], origin=[0., 0., %r], atmos_type=%d)\n"
                "tgt = mulgrid().rectangular([10.], [10.], [%r, %r], origin=[0., 0., %r], atmos_type=%d)\n"
                "for lay, cc in zip(src.layerlist[1:], %r): lay.centre = cc\n"
                "for lay, cc in zip(tgt.layerlist[1:], %r): lay.centre = cc\n"
                "for g, s in ((src, %r), (tgt, %r)):\n"
                "    g.columnlist[0].surface = s; g.set_column_num_layers(g.columnlist[0]); g.setup_block_name_index(); g.setup_block_connection_name_index()\n"
                "try:\n"
                "    mp = src.block_mapping(tgt)\n"
                "    und = tgt.block_name_list[tgt.num_atmosphere_blocks:]\n"
                "    bad = [(b, mp.get(b)) for b in und if mp.get(b) not in src.block_name_list]\n"
                "    ok = set(mp) == set(tgt.block_name_list) and not bad\n"
                "    detail = 'images that do not exist in the source: %%r (source blocks %%r, source surface %%r)' %% (bad, src.block_name_list, src.columnlist[0].surface)\n"
                "except Exception as ex:\n"
                "    ok, detail = False, '%%s: %%s' %% (type(ex).__name__, ex)\n") % (
                    z0 - b[0], b[0] - b[1], b[1] - b[2], z0, satm, tz0 - tb[0], tb[0] - tb[1], tz0, tatm, c, tc, ss, ts)
    return ("import numpy as np\nfrom mulgrids import *\n"
            "ok, detail = True, ''\n"
            "for satm in (0, 1, 2):\n"
            "    for tatm in (0, 1, 2):\n"
            "        if satm in (1, 2) and tatm == 0: continue\n"
            "        src = mulgrid().rectangular([10.] * 2, [10.] * 2, [5., 7., 9.], atmos_type=satm)\n"
            "        tgt = mulgrid().rectangular([5.] * 4, [5.] * 4, [2.] * 6, atmos_type=tatm)\n"
            "        src.columnlist[0].surface = -6.; src.set_column_num_layers(src.columnlist[0]); src.setup_block_name_index()\n"
            "        mp = src.block_mapping(tgt)\n"
            "        und = tgt.block_name_list[tgt.num_atmosphere_blocks:]\n"
            "        if set(mp) != set(tgt.block_name_list) or any(mp[b] not in src.block_name_list for b in und):\n"
            "            ok, detail = False, 'source atm %d target atm %d: unmapped or non-existent images %r' % (satm, tatm, [(b, mp.get(b)) for b in und if mp.get(b) not in src.block_name_list][:5])\n"
            "        lm = src.layer_mapping(tgt)\n"
            "        for lay in tgt.layerlist[1:]:\n"
            "            best = min(abs(l.centre - lay.centre) for l in src.layerlist[1:])\n"
            "            if abs(src.layer[lm[lay.name]].centre - lay.centre) > best + 1e-12 or lm[lay.name] == src.layerlist[0].name:\n"
            "                ok, detail = False, 'layer %r mapped to %r' % (lay.name, lm[lay.name])\n"
            "    g = mulgrid().rectangular([10.] * 2, [10.] * 2, [5., 7., 9.], atmos_type=satm)\n"
            "    if any(k != v for k, v in g.block_mapping(g).items()): ok, detail = False, 'self mapping is not the identity'\n")
