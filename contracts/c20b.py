"""C20 - the real convert_to_TOUGH2 / convert_to_AUTOUGH2 on the full data object of contracts.c01_model, followed by a
file round trip over the tape file system: the converted model declares the other flavour, holds nothing specific to the
old one, keeps grid / remaining generators / history requests, and survives write() -> read()."""
import z3
from pyvc.engine import Obj, NVec
from pyvc import library as L
from pyvc.values import PyExc, Unsupported, to_real, to_int
from contracts.c01 import build_model, TapeFiles, _same, _get, SECTION_CONTENT

FUNCS = ['t2data.t2data.generators_json', 't2data.t2data.rocks_json', 't2data.t2data.convert_to_TOUGH2', 't2data.t2data.convert_to_AUTOUGH2', 't2data.t2data.convert_AUTOUGH2_parameters_to_TOUGH2', 't2data.t2data.convert_TOUGH2_parameters_to_AUTOUGH2',
         't2data.t2data.convert_AUTOUGH2_generators_to_TOUGH2', 't2data.t2data.convert_short_to_history', 't2data.t2data.convert_history_to_short', 't2data.t2data.write', 't2data.t2data.read']


def _snapshot(e, d):
    """Grid, generators and history requests by value (names and numbers), for the 'unchanged' clauses."""
    f = d.fields
    g = f['grid'].fields
    return {
        'blocks': [(b.fields['name'], b.fields['volume'], b.fields['rocktype'].fields['name'], None if b.fields['centre'] is None else list(b.fields['centre'].items)) for b in g['blocklist']],
        'connections': [(tuple(b.fields['name'] for b in c.fields['block']), c.fields['direction'], list(c.fields['distance']), c.fields['area'], c.fields['dircos']) for c in g['connectionlist']],
        'rocks': [(r.fields['name'], r.fields['density'], r.fields['porosity'], list(r.fields['permeability'].items if isinstance(r.fields['permeability'], NVec) else r.fields['permeability']), r.fields['specific_heat']) for r in g['rocktypelist']],
        'conductivity': [r.fields['conductivity'] for r in g['rocktypelist']],
        'generators': [(x.fields['block'], x.fields['name'], x.fields['type'], x.fields['gx'], x.fields['ex'], list(x.fields['time']), list(x.fields['rate']), list(x.fields['enthalpy'])) for x in f['generatorlist']],
    }


def _names(x):
    return x if isinstance(x, (str, tuple)) else (x.fields['name'] if 'name' in x.fields else tuple(k.fields['name'] for k in x.fields['block']))


def p_convert_roundtrip(e, arg):
    source, mp = arg
    target = 'TOUGH2' if source == 'AUTOUGH2' else 'AUTOUGH2'
    tag = '[%s -> %s%s]' % (source, target, ' MP' if mp else '')
    def prog(e):
        m = e.load_module('t2data').globals
        d = build_model(e, source, {'timesteps': 9})
        f = d.fields
        if source == 'AUTOUGH2':
            # generators of a convertible type, of a type TOUGH2 lacks, and one of those sharing (block, name) with a kept generator
            names = [b.fields['name'] for b in f['grid'].fields['blocklist']]
            for kw in (dict(name='gen 9', block=names[1], type='CO2 ', gx=e.sym_real('gx9'), ex=e.sym_real('ex9')), dict(name='gen 8', block=names[1], type='RECH', gx=e.sym_real('gx8')),
                       dict(name='gen 1', block=names[0], type='TRAC', gx=e.sym_real('gx7')), dict(name='gen 6', block=names[2], type='COM3', gx=e.sym_real('gx6'))):
                e.call(e.getattr(d, 'add_generator'), [e.call(m['t2generator'], [], kw)])
        before = _snapshot(e, d)
        hist_before = {'FOFT': [_names(x) for x in f['history_block']], 'SHORT': [_names(x) for x in f['short_output'].get('block', [])] if f['short_output'] else []}
        e.call(e.getattr(d, 'update_sections'), [])
        try:
            if source == 'AUTOUGH2':
                e.call(e.getattr(d, 'convert_to_TOUGH2'), [], {'warn': False, 'MP': mp})
            else:
                e.call(e.getattr(d, 'convert_to_AUTOUGH2'), [], {'warn': False, 'MP': mp})
        except PyExc as ex:
            e.fail('post:conversion_completes' + tag, 'raises %s: %s' % (ex.cls, ex.msg)); return
        e.prove(True, 'post:conversion_completes' + tag)
        e.call(e.getattr(d, 'update_sections'), [])          # what write() does first: the section list follows the data
        e.prove(e.getattr(d, 'type') == target, 'post:model_declares_the_target_flavour' + tag)
        secs = f['_sections']
        if target == 'TOUGH2':
            e.prove(f['simulator'] == '' and not f['lineq'] and not f['short_output'] and 'eos' not in f['multi'] and not any(k in secs for k in ('SIMUL', 'LINEQ', 'SHORT')),
                    'post:nothing_specific_to_the_old_flavour_remains' + tag)
        else:
            e.prove(bool(f['simulator']) and not f['solver'] and not f['history_block'] and not f['history_connection'] and not f['history_generator'] and
                    not any(k in secs for k in ('SOLVR', 'FOFT', 'COFT', 'GOFT')), 'post:nothing_specific_to_the_old_flavour_remains' + tag)
        after = _snapshot(e, d)
        bad = []
        for k in ('blocks', 'connections', 'rocks'):
            _same(e, before[k], after[k], k, bad)
        if bad:
            e.fail('post:grid_and_rock_types_unchanged' + tag, '; '.join(bad[:3]))
        else:
            e.prove(True, 'post:grid_and_rock_types_unchanged' + tag)
        # generators: every generator of a type the target has is kept as it was, in order
        allowed = ['HEAT', 'WATE', 'AIR ', 'MASS', 'DELV']
        kept = []
        for g in before['generators']:
            t = 'COM2' if g[2] == 'CO2 ' else g[2]
            if target == 'AUTOUGH2' or t in allowed or t.startswith('COM'):
                kept.append(g[:2] + (t,) + g[3:])
        bad = []
        _same(e, kept, after['generators'], 'generators', bad)
        keys = [(x.fields['block'], x.fields['name']) for x in f['generatorlist']]
        if set(f['generator'].keys()) != set(keys) or any(not any(f['generator'][k] is x for x in f['generatorlist']) or (f['generator'][k].fields['block'], f['generator'][k].fields['name']) != k for k in f['generator']):
            bad.append('generator lookup keys %r, generators %r' % (sorted(f['generator'].keys()), keys))
        if bad:
            e.fail('post:generators_of_supported_types_kept_in_order_others_deleted_from_list_and_lookup' + tag, '; '.join(bad[:3]))
        else:
            e.prove(len(after['generators']) >= 3 and (target == 'AUTOUGH2' or len(after['generators']) < len(before['generators'])), 'post:generators_of_supported_types_kept_in_order_others_deleted_from_list_and_lookup' + tag)
        # history requests survive as the other flavour's form
        if target == 'TOUGH2':
            got = [_names(x) for x in f['history_block']]
            e.prove(got == hist_before['SHORT'] and len(got) >= 1, 'post:short_output_blocks_become_history_blocks' + tag)
        else:
            got = [_names(x) for x in f['short_output'].get('block', [])]
            e.prove(got == hist_before['FOFT'] and len(got) >= 1, 'post:history_blocks_become_short_output_blocks' + tag)
        # the converted model survives a file round trip
        files = TapeFiles(e, {'main': m['t2data_format_specification'], 'xp': m['t2data_extra_precision_format_specification']})
        files.install()
        try:
            e.call(e.getattr(d, 'write'), ['model.dat'])
            first = files.records()
            h = e.call(m['t2data'], [])
            e.call(e.getattr(h, 'read'), ['model.dat'])
        except PyExc as ex:
            e.fail('post:converted_model_survives_a_file_round_trip' + tag, 'raises %s: %s' % (ex.cls, ex.msg)); return
        bad = list(files.errors())
        hf = h.fields
        if hf['_sections'] != f['_sections']:
            bad.append('sections written %r read %r' % (f['_sections'], hf['_sections']))
        if e.getattr(h, 'type') != target:
            bad.append('re-read model declares %s' % e.getattr(h, 'type'))
        for sec in f['_sections']:
            for path in SECTION_CONTENT[sec]:
                a, b = _get(d, path), _get(h, path)
                if sec in ('FOFT', 'COFT', 'GOFT'):        # requests are compared by the names they are written as (GOFT lists block names)
                    nm = lambda x: x if isinstance(x, (str, tuple)) else (x.fields['block'] if 'gx' in x.fields else _names(x))
                    a, b = [nm(x) for x in a], [nm(x) for x in b]
                _same(e, a, b, path, bad)
        try:
            e.call(e.getattr(h, 'write'), ['model.dat'])
            _same(e, first, files.records(), 'files', bad)
        except PyExc as ex:
            bad.append('second write raises %s: %s' % (ex.cls, ex.msg))
        if bad:
            e.fail('post:converted_model_survives_a_file_round_trip' + tag, '; '.join(bad[:4]))
        else:
            e.prove(len(f['_sections']) >= 10, 'post:converted_model_survives_a_file_round_trip' + tag)
    e.explore(prog, 'convert_roundtrip')


def p_history_kept(e, which):
    """convert_to_TOUGH2 on an AUTOUGH2 model that has history requests of its own and a short-output section that lacks
    some kinds of item: the history requests of the kinds the short output does not mention are unchanged, the kinds it
    mentions are replaced by the short-output items (what convert_short_to_history states)."""
    tag = '[short output holds %s]' % (', '.join(which) or 'only a frequency')
    def prog(e):
        d = build_model(e, 'AUTOUGH2', {'timesteps': 9})
        f = d.fields
        bl = f['grid'].fields['blocklist']; cl = f['grid'].fields['connectionlist']
        f['history_block'] = [bl[0], bl[2]]; f['history_connection'] = [cl[1]]; f['history_generator'] = [bl[1]]
        short = {'frequency': 5}
        items = {'block': [bl[1]], 'connection': list(cl[:1]), 'generator': list(f['generatorlist'][:1])}
        for k in which:
            short[k] = items[k]
        f['short_output'] = short
        before = {'block': list(f['history_block']), 'connection': list(f['history_connection']), 'generator': list(f['history_generator'])}
        e.call(e.getattr(d, 'update_sections'), [])
        try:
            e.call(e.getattr(d, 'convert_to_TOUGH2'), [], {'warn': False})
        except PyExc as ex:
            e.fail('post:conversion_completes' + tag, 'raises %s: %s' % (ex.cls, ex.msg)); return
        after = {'block': f['history_block'], 'connection': f['history_connection'], 'generator': f['history_generator']}
        same = lambda a, b: len(a) == len(b) and all(x is y for x, y in zip(a, b))
        e.prove(all(same(after[k], items[k] if k in which else before[k]) for k in ('block', 'connection', 'generator')) and f['short_output'] == {},
                'post:history_requests_unchanged_where_the_short_output_has_no_such_items' + tag)
    e.explore(prog, 'history_kept')


def p_rocks_json(e, arg):
    """rocks_json on the grid of a real rectangular geometry with two rock types: every non-boundary block is in exactly one
    rock type's cell list - that of its own rock type - under its cell index, boundary blocks (volume <= 0 or >= atmos_volume) in none."""
    atm, coords = arg
    tag = '[atm%d,%s]' % (atm, coords)
    from contracts.c04 import build_rect, _valid
    def prog(e):
        md, mg = e.load_module('t2data').globals, e.load_module('t2grids').globals
        geo, S = build_rect(e, 2, 1, 2, atm, 0, 1)
        for d in S['dx'] + S['dy'] + S['dz']:
            e.assume(z3.And(d <= 1000000))
        e.assume(geo.fields['atmosphere_volume'] >= 10 ** 25)          # atmosphere blocks are boundary blocks (huge volume)
        dat = e.call(md['t2data'], [])
        grid = e.call(e.getattr(e.call(mg['t2grid'], []), 'fromgeo'), [geo])
        dat.fields['grid'] = grid
        rt2 = e.call(mg['rocktype'], ['rock2', 0, e.sym_real('dens2'), e.sym_real('por2'), [e.sym_real('k2_%d' % j) for j in range(3)], e.sym_real('cond2'), e.sym_real('sh2')])
        e.call(e.getattr(grid, 'add_rocktype'), [rt2])
        bl = grid.fields['blocklist']
        for b in bl[1::2]:
            b.fields['rocktype'] = rt2
        # one underground block turned into a boundary block of symbolic volume (active, zero or huge decides on the path)
        bl[-1].fields['volume'] = e.sym_real('bvol')
        atmos_volume = z3.RealVal(10) ** 25 if False else 10 ** 25
        try:
            js = e.call(e.getattr(dat, 'rocks_json'), [geo, atmos_volume, coords])
        except PyExc as ex:
            e.fail('post:rocks_json_completes' + tag, 'raises %s: %s' % (ex.cls, ex.msg)); return
        types = js['rock']['types']
        e.prove([t['name'] for t in types] == [r.fields['name'] for r in grid.fields['rocktypelist']] and all(len(t['permeability']) == (3 if coords == 'xyz' else 2) for t in types),
                'post:one_entry_per_rock_type_in_order' + tag)
        natm = {0: 1, 1: 2, 2: 0}[atm]
        ok, why = True, ''
        for k, nm in enumerate(geo.fields['block_name_list']):
            b = grid.fields['block'][nm]
            idx = k - natm
            where = [t['name'] for t in types if idx in t['cells']]
            count = sum(t['cells'].count(idx) for t in types)
            active = z3.And(to_real(b.fields['volume']) > 0, to_real(b.fields['volume']) < atmos_volume)
            if count == 0:
                if not _valid(e, z3.Not(active)):
                    ok, why = False, 'active block %r is in no cell list' % nm
            elif count == 1:
                if where != [b.fields['rocktype'].fields['name']] or not _valid(e, active):
                    ok, why = False, 'block %r (index %d) is in the cell list of %r, its rock type is %r' % (nm, idx, where, b.fields['rocktype'].fields['name'])
            else:
                ok, why = False, 'block %r appears %d times' % (nm, count)
        if ok:
            e.prove(True, 'post:every_non_boundary_block_in_exactly_the_cell_list_of_its_rock_type' + tag)
        else:
            e.fail('post:every_non_boundary_block_in_exactly_the_cell_list_of_its_rock_type' + tag, why)
        e.prove(all(0 <= i < len(geo.fields['block_name_list']) - natm for t in types for i in t['cells']), 'post:cell_indices_are_underground_block_indices' + tag)
    e.explore(prog, 'rocks_json')


def p_generators_json(e, arg):
    """generators_json on a real grid: one source per (non-group) generator, in order, each with the cell index of its block
    (None for an atmosphere block), constant rates and tables carried over - including a table generator whose GX field
    was blank in the file (gx None, as t2data.read leaves it)."""
    atm, eos = arg
    tag = '[atm%d,%s]' % (atm, eos)
    from contracts.c04 import build_rect, _valid
    def prog(e):
        md, mg = e.load_module('t2data').globals, e.load_module('t2grids').globals
        geo, S = build_rect(e, 2, 1, 2, atm, 0, 0)
        dat = e.call(md['t2data'], [])
        dat.fields['grid'] = e.call(e.getattr(e.call(mg['t2grid'], []), 'fromgeo'), [geo])
        n = geo.fields['block_name_list']
        natm = {0: 1, 1: 2, 2: 0}[atm]
        gens = [dict(name='gen 1', block=n[natm], type='MASS', gx=e.sym_real('gx1'), ex=e.sym_real('ex1')),
                dict(name='gen 2', block=n[-1], type='HEAT', gx=e.sym_real('gx2', 0)),
                dict(name='gen 3', block=n[natm + 1], type='MASS', ltab=2, itab='E', gx=None, ex=None, time=[e.sym_real('t0'), e.sym_real('t1')], rate=[e.sym_real('r0'), e.sym_real('r1')],
                     enthalpy=[e.sym_real('h0'), e.sym_real('h1')]),
                dict(name='gen 4', block=n[-2], type='COM1', gx=e.sym_real('gx4', 0), ex=e.sym_real('ex4'))]
        if natm:
            gens.append(dict(name='gen 5', block=n[0], type='HEAT', gx=e.sym_real('gx5', 0)))
        e.assume(gens[1]['gx'] > 0); e.assume(gens[3]['gx'] > 0)
        for kw in gens:
            e.call(e.getattr(dat, 'add_generator'), [e.call(md['t2generator'], [], kw)])
        try:
            js = e.call(e.getattr(dat, 'generators_json'), [geo, eos])
        except PyExc as ex:
            e.fail('post:generators_json_completes' + tag, 'raises %s: %s' % (ex.cls, ex.msg)); return
        e.prove(True, 'post:generators_json_completes' + tag)
        src = js.get('source', [])
        e.prove(len(src) == len(gens) and [x['name'] for x in src] == [g['name'] for g in gens] and 'network' not in js, 'post:one_source_per_generator_in_order' + tag)
        if len(src) != len(gens):
            return
        ok = True
        for x, g in zip(src, gens):
            want = geo.fields['block_name_index'][g['block']] - natm
            ok = ok and x['cell'] == (want if want >= 0 else None)
        e.prove(ok, 'post:every_source_has_the_cell_index_of_its_block' + tag)
        x1, x3 = src[0], src[2]
        e.prove(_valid(e, to_real(x1['rate']) == to_real(gens[0]['gx'])), 'post:constant_rate_carried_over' + tag)
        e.prove(isinstance(x3.get('rate'), list) and len(x3['rate']) == 2 and all(_valid(e, z3.And(to_real(a) == to_real(t), to_real(b) == to_real(r))) for (a, b), t, r in zip(x3['rate'], gens[2]['time'], gens[2]['rate'])) and
                isinstance(x3.get('enthalpy'), list) and all(_valid(e, z3.And(to_real(a) == to_real(t), to_real(b) == to_real(h))) for (a, b), t, h in zip(x3['enthalpy'], gens[2]['time'], gens[2]['enthalpy'])),
                'post:rate_and_enthalpy_tables_carried_over' + tag)
    e.explore(prog, 'generators_json')


PROGRAMS = [('p_history_kept', w) for w in ((), ('generator',), ('block',), ('block', 'connection', 'generator'))] + [('p_generators_json', (a, q)) for a, q in ((0, 'we'), (1, 'w'), (2, 'wce'))] + [('p_rocks_json', (a, c)) for a in (0, 1, 2) for c in ('xyz', 'rz')] + [('p_convert_roundtrip', ('AUTOUGH2', False)), ('p_convert_roundtrip', ('AUTOUGH2', True)), ('p_convert_roundtrip', ('TOUGH2', False))]


def replay(obname, model, result):
    if result['program'] == 'p_history_kept':
        which = result['arg']
        return ("from mulgrids import *\nfrom t2data import *\nfrom t2grids import *\n"
                "g = mulgrid().rectangular([10., 25.], [15.], [4., 6.], atmos_type=2)\nd = t2data(); d.grid = t2grid().fromgeo(g); d.simulator = 'AUTOUGH2.2EW'\n"
                "bl, cl = d.grid.blocklist, d.grid.connectionlist\nd.add_generator(t2generator(name='gen 1', block=bl[0].name, type='MASS', gx=1.))\n"
                "d.history_block = [bl[0], bl[2]]; d.history_connection = [cl[1]]; d.history_generator = [bl[1]]\n"
                "items = {'block': [bl[1]], 'connection': cl[:1], 'generator': d.generatorlist[:1]}\nd.short_output = {'frequency': 5}\n"
                "for k in %r: d.short_output[k] = items[k]\n"
                "before = {'block': list(d.history_block), 'connection': list(d.history_connection), 'generator': list(d.history_generator)}\n"
                "d.convert_to_TOUGH2(warn=False)\nafter = {'block': d.history_block, 'connection': d.history_connection, 'generator': d.history_generator}\n"
                "ok = all(list(after[k]) == list(items[k] if k in %r else before[k]) for k in before)\ndetail = str(dict((k, len(v)) for k, v in after.items()))\n") % (tuple(which), tuple(which))
    if result['program'] == 'p_rocks_json':
        atm, coords = result['arg']
        m = model or {}
        v = m.get('bvol'); bvol = (float(int(v['num'])) / float(int(v['den']))) if isinstance(v, dict) else 5.
        return ("from mulgrids import *\nfrom t2data import *\nfrom t2grids import *\n"
                "g = mulgrid().rectangular([10., 25.], [15.], [4., 6.], atmos_type=%d)\nd = t2data(); d.grid = t2grid().fromgeo(g)\n"
                "r2 = rocktype('rock2'); d.grid.add_rocktype(r2)\n"
                "for b in d.grid.blocklist[1::2]: b.rocktype = r2\n"
                "d.grid.blocklist[-1].volume = %r\njs = d.rocks_json(g, 1.e25, %r)\nna = g.num_atmosphere_blocks\nok, detail = True, ''\n"
                "for k, n in enumerate(g.block_name_list):\n"
                "    b = d.grid.block[n]; idx = k - na\n"
                "    where = [t['name'] for t in js['rock']['types'] for i in t['cells'] if i == idx]\n"
                "    want = [b.rocktype.name] if 0. < b.volume < 1.e25 else []\n"
                "    if where != want: ok, detail = False, 'block %%r index %%d in %%r, want %%r' %% (n, idx, where, want)\n") % (atm, bvol, coords)
    if result['program'] == 'p_generators_json':
        atm, eos = result['arg']
        return ("from mulgrids import *\nfrom t2data import *\nfrom t2grids import *\n"
                "g = mulgrid().rectangular([10., 25.], [15.], [4., 6.], atmos_type=%d)\nd = t2data(); d.grid = t2grid().fromgeo(g)\nn = g.block_name_list; na = g.num_atmosphere_blocks\n"
                "gens = [dict(name='gen 1', block=n[na], type='MASS', gx=-2.5, ex=1.e5), dict(name='gen 2', block=n[-1], type='HEAT', gx=7.5),\n"
                "        dict(name='gen 3', block=n[na + 1], type='MASS', ltab=2, itab='E', gx=None, ex=None, time=[0., 1.], rate=[1., 2.], enthalpy=[1.e5, 2.e5]), dict(name='gen 4', block=n[-2], type='COM1', gx=1.5, ex=2.e5)]\n"
                "if na: gens.append(dict(name='gen 5', block=n[0], type='HEAT', gx=3.5))\n"
                "for kw in gens: d.add_generator(t2generator(**kw))\n"
                "try:\n"
                "    js = d.generators_json(g, %r); src = js.get('source', [])\n"
                "    ok = [x['name'] for x in src] == [k['name'] for k in gens] and all(x['cell'] == (g.block_name_index[k['block']] - na if g.block_name_index[k['block']] >= na else None) for x, k in zip(src, gens)) and src[2]['rate'] == [[0., 1.], [1., 2.]]\n"
                "    detail = str(src)[:300]\n"
                "except Exception as ex:\n"
                "    ok, detail = False, 'generators_json raises %%s: %%s' %% (type(ex).__name__, ex)\n") % (atm, eos)
    if result['program'] != 'p_convert_roundtrip':
        return None
    return ("from contracts.c20_native import native_convert_roundtrip\nok, detail = native_convert_roundtrip(%r, %r, %r)\n") % (tuple(result['arg']), model or {}, obname.split('[')[0])
