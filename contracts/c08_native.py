"""Native replay of the C08 grid-edit obligations (CPython, real classes)."""
import numpy as np
from contracts.c04_native import build, _val

NAMES = ['  a 1', '  b 1', '  c 1', '  d 1']
CONS = [(0, 1), (1, 2), (2, 3), (0, 3)]
G5 = ('block_lookup_and_list_agree_with_unique_names', 'rocktype_lookup_and_list_agree_with_unique_names', 'connections_join_blocks_of_the_grid_under_their_current_names',
      'each_block_records_exactly_the_connections_that_mention_it', 'every_block_rock_type_is_registered')


def four_blocks(values):
    from t2grids import t2grid, rocktype, t2block, t2connection
    g = t2grid(); rt = rocktype(); g.add_rocktype(rt)
    for k, n in enumerate(NAMES):
        g.add_block(t2block(n, _val(values, 'vol%d' % k, 10. + k), rt, centre=np.array([_val(values, 'x%d' % k, 1. * k), _val(values, 'y%d' % k, 2. * k), _val(values, 'z%d' % k, -1. * k)])))
    for k, (a, b) in enumerate(CONS):
        g.add_connection(t2connection([g.block[NAMES[a]], g.block[NAMES[b]]], int(_val(values, 'dir%d' % k, 1)), [_val(values, 'd%da' % k, 1.), _val(values, 'd%db' % k, 2.)], _val(values, 'area%d' % k, 3.), _val(values, 'dircos%d' % k, 0.)))
    return g


def wf(grid):
    out = dict((g, []) for g in G5)
    names = [b.name for b in grid.blocklist]
    if len(set(names)) != len(names) or set(grid.block) != set(names) or any(grid.block.get(n) is not b for n, b in zip(names, grid.blocklist)): out[G5[0]].append('block list %r, lookup %r' % (names, sorted(grid.block)))
    rn = [r.name for r in grid.rocktypelist]
    if len(set(rn)) != len(rn) or set(grid.rocktype) != set(rn) or any(grid.rocktype.get(n) is not r for n, r in zip(rn, grid.rocktypelist)): out[G5[1]].append('rock types %r, lookup %r' % (rn, sorted(grid.rocktype)))
    keys = []
    for c in grid.connectionlist:
        k = tuple(b.name for b in c.block); keys.append(k)
        if grid.connection.get(k) is not c: out[G5[2]].append('connection %r not found under its names' % (k,))
        if any(not any(b is x for x in grid.blocklist) for b in c.block): out[G5[2]].append('connection %r joins a block object that is not in the grid' % (k,))
    if set(grid.connection) != set(keys) or len(set(keys)) != len(keys): out[G5[2]].append('connection list and lookup disagree')
    for b in grid.blocklist:
        want = set(k for k in keys if b.name in k)
        if set(b.connection_name) != want: out[G5[3]].append('block %r records %r, mentioned by %r' % (b.name, sorted(b.connection_name), sorted(want)))
        if not any(b.rocktype is r for r in grid.rocktypelist): out[G5[4]].append('block %r rock type %r not registered' % (b.name, getattr(b.rocktype, 'name', b.rocktype)))
    return out


def other_grid(names, rockname):
    from t2grids import t2grid, rocktype, t2block, t2connection
    g = t2grid(); rt = rocktype(rockname); g.add_rocktype(rt)
    for k, n in enumerate(names): g.add_block(t2block(n, 1. + k, rt))
    for k in range(len(names) - 1): g.add_connection(t2connection([g.blocklist[k], g.blocklist[k + 1]], 1, [1., 2.], 3., 0))
    return g


def native_gridop(arg, values, clause):
    from t2grids import t2grid, rocktype, t2block, t2connection
    start, op, a = arg
    G = four_blocks(values) if start == 'four_blocks' else t2grid().fromgeo(build((start[0], start[1], start[2], start[3], 0, 1), values)[0])
    nb0 = len(G.blocklist)
    n = [b.name for b in G.blocklist]
    try:
        if op == 'add_block': G.add_block(t2block(a[0], 5., G.rocktypelist[0], centre=np.array([1., 2., 3.])))
        elif op == 'delete_block': G.delete_block(n[a[0]])
        elif op == 'delete_connection': G.delete_connection(tuple(b.name for b in G.connectionlist[a[0]].block))
        elif op == 'add_connection': G.add_connection(t2connection([G.blocklist[a[0]], G.blocklist[a[1]]], 2, [1., 2.], 3., 0.5))
        elif op == 'add_rocktype': G.add_rocktype(rocktype(a[0]))
        elif op == 'delete_rocktype': G.delete_rocktype(a[0])
        elif op == 'rename_rocktype': G.rename_rocktype(G.rocktypelist[0].name, a[0])
        elif op == 'clean_rocktypes': G.add_rocktype(rocktype('unuse')); G.clean_rocktypes()
        elif op == 'sort_rocktypes': G.add_rocktype(rocktype('aaaaa')); G.sort_rocktypes()
        elif op == 'demote_block': G.demote_block(n[a[0]])
        elif op == 'rename_blocks': G.rename_blocks(dict((n[i], n[j]) if isinstance(j, int) else (n[i], j) for i, j in a))
        elif op == 'reorder': G.reorder([n[k] for k in a] if a else n[::-1])
        elif op == 'plus': G = G + other_grid(list(a), 'other')
        elif op == 'embed':
            sub = other_grid(list(a[1:]), 'other')
            G = G.embed(sub, t2connection([G.blocklist[a[0]], sub.blocklist[0]], 1, [1., 2.], 3., 0))
            if G is None: return True, 'embedding refused'
        else: raise ValueError(op)
    except Exception as ex:
        return (clause != 'completes'), '%s raises %s: %s' % (op, type(ex).__name__, ex)
    if clause == 'completes': return True, 'completes'
    if clause == 'count': return len(G.blocklist) == nb0, '%d blocks before, %d after' % (nb0, len(G.blocklist))
    bad = wf(G)[clause]
    return (not bad), '; '.join(bad[:3]) or 'clause holds'
