"""C17 - contracts and lemmas on the real naming functions of mulgrids.py.

Each `p_*` function is an obligation program: it builds symbolic inputs, calls the real
function(s) through the pyvc executor and states the postcondition with eng.prove.
`replay_*` build the native snippet that re-evaluates the same contract on the real code
for a solver model.
"""
import z3
from pyvc.engine import Obj
from pyvc import library as L
from pyvc.values import SymStr, z_and, z_or, z_not, char_in, to_int, Unsupported, PyExc
import string

LETTERS_DIGITS_BLANK = string.ascii_letters + string.digits + ' '
FUNCS = ['mulgrids.fix_blockname', 'mulgrids.unfix_blockname', 'mulgrids.int_to_chars',
         'mulgrids.mulgrid.block_name', 'mulgrids.mulgrid.column_name', 'mulgrids.mulgrid.layer_name',
         'mulgrids.mulgrid.node_col_name_from_number', 'mulgrids.mulgrid.column_name_from_number',
         'mulgrids.mulgrid.node_name_from_number', 'mulgrids.mulgrid.layer_name_from_number',
         'mulgrids.new_dict_key', 'mulgrids.uniqstring']


def eq(e, a, b):
    return L.equals(e, a, b)


def _fix(e): return e.get_function('mulgrids.fix_blockname')
def _unfix(e): return e.get_function('mulgrids.unfix_blockname')


# ---- fix / unfix -----------------------------------------------------------------------

def p_fix_idempotent(e):
    def prog(e):
        n = e.sym_str('name', length=5)
        r = e.call(_fix(e), [n])
        e.prove(eq(e, e.call(_fix(e), [r]), r), 'lemma:fix_idempotent')
        # frame: fix changes at most the fourth character, and only a blank into '0'
        rs, ns = SymStr.of(r), SymStr.of(n)
        same = z_and(*[L.equals(e, rs.chars[k], ns.chars[k]) for k in (0, 1, 2, 4)])
        e.prove(z_and(rs.n == 5, same), 'post:fix_frame')
        e.prove(z_or(L.equals(e, rs.chars[3], ns.chars[3]),
                     z_and(L.equals(e, ns.chars[3], 32), L.equals(e, rs.chars[3], 48))), 'post:fix_only_blank_to_zero')
    e.explore(prog, 'fix_idempotent')


def p_unfix_simulator_form(e):
    """unfix(fix(n)) == n for every name the simulator prints with format (a3, i2)."""
    def prog(e):
        a3 = e.sym_str('a3', length=3)
        i = e.sym_int('i', 0, 99)
        n = L.binop(e, __import__('ast').Mod(), '%3s%2d', (a3, i))
        f = e.call(_fix(e), [n])
        u = e.call(_unfix(e), [f])
        e.prove(eq(e, u, n), 'lemma:unfix_returns_simulator_form')
        # and fix really repairs: no blank in the 4th column remains when columns 3 and 5 are digits
        fs = SymStr.of(f)
        e.prove(z_not(z_and(L.V.is_digit_c(fs.chars[2]), L.V.is_digit_c(fs.chars[4]), L.equals(e, fs.chars[3], 32))),
                'post:fix_repairs_quirk')
    e.explore(prog, 'unfix_simulator_form')


def p_cycle_stable(e):
    """One write (unfix) then read (fix) cycle reaches a fixed point of further cycles."""
    def prog(e):
        n = e.sym_str('name', length=5, alphabet=LETTERS_DIGITS_BLANK)
        def cycle(x):
            return e.call(_fix(e), [e.call(_unfix(e), [x])])
        c1 = cycle(n)
        c2 = cycle(c1)
        e.prove(eq(e, c2, c1), 'lemma:cycle_stable')
        e.prove(L.b_len.fn(e, c1) == 5 if not isinstance(L.b_len.fn(e, c1), int) else L.b_len.fn(e, c1) == 5, 'post:cycle_length5')
    e.explore(prog, 'cycle_stable')


def p_unfix_frame(e):
    def prog(e):
        n = e.sym_str('name', length=5)
        u = e.call(_unfix(e), [n])
        env = {'u': u, 'n': n}
        e.prove(e.eval_str('len(u) == 5', env), 'post:unfix_length5')
        e.prove(e.eval_str('u[0:3] == n[0:3] and u[4:5] == n[4:5]', env), 'post:unfix_frame')
        e.prove(e.eval_str("u[3:4] == n[3:4] or (n[3:4] == '0' and u[3:4] == ' ')", env), 'post:unfix_only_zero_to_blank')
    e.explore(prog, 'unfix_frame')


# ---- block_name / column_name / layer_name inversion -------------------------------------

def _geo(e, convention):
    cls = e.load_module('mulgrids').globals['mulgrid']
    g = Obj(cls)
    g.fields['_convention'] = convention
    g.fields['_atmosphere_type'] = 2
    e.call(e.get_function('mulgrids.mulgrid.set_secondary_variables'), [g])
    return g


def p_block_name_inverse(e, convention):
    """column_name(block_name(lay, col)) == col and layer_name(...) == lay, for every
    column / layer name of the convention's shape (precondition from the generators:
    conventions 0 and 3: third column character is not a digit; convention 1: third layer
    character is not a digit; convention 2: the column name is a right-justified decimal
    numeral).  Hence block_name is injective."""
    def prog(e):
        g = _geo(e, convention)
        cl = g.fields['colname_length']
        ll = g.fields['layername_length']
        col = e.sym_str('col', length=cl, alphabet=LETTERS_DIGITS_BLANK)
        lay = e.sym_str('lay', length=ll, alphabet=LETTERS_DIGITS_BLANK)
        cs, ls = SymStr.of(col), SymStr.of(lay)
        if convention in (0, 3):
            e.assume(z3.Not(L.V.is_digit_c(cs.chars[2])))
        elif convention == 1:
            e.assume(z3.Not(L.V.is_digit_c(ls.chars[2])))
        else:
            # right-justified numeral: digits, with leading blanks only
            d = [L.V.is_digit_c(c) for c in cs.chars]
            b = [c == 32 for c in cs.chars]
            e.assume(z3.And(d[2], z3.Or(d[1], z3.And(b[1], b[0])), z3.Or(d[0], b[0])))
        bn = e.call(e.get_function('mulgrids.mulgrid.block_name'), [g, lay, col])
        n = L.b_len.fn(e, bn)
        e.prove(n == 5, 'post:block_name_length5[conv%d]' % convention)
        c2 = e.call(e.get_function('mulgrids.mulgrid.column_name'), [g, bn])
        l2 = e.call(e.get_function('mulgrids.mulgrid.layer_name'), [g, bn])
        e.prove(eq(e, c2, col), 'lemma:column_name_inverts_block_name[conv%d]' % convention)
        e.prove(eq(e, l2, lay), 'lemma:layer_name_inverts_block_name[conv%d]' % convention)
    e.explore(prog, 'block_name_inverse')


# ---- generated names ---------------------------------------------------------------------

CAP = {0: 26 + 26 ** 2 + 26 ** 3, 3: 26 + 26 ** 2 + 26 ** 3, 1: 99, 2: 999}
LAYCAP = {0: 99, 1: 26 + 26 ** 2 + 26 ** 3, 2: 26 + 26 ** 2, 3: 26 + 26 ** 2}


def _justfn(e, left):
    return e.getattr(L.BUILTINS['str'], 'ljust') if False else None


def p_column_names(e, arg):
    """column_name_from_number(num): length == colname_length and injective on the valid
    range; NamingConventionError exactly beyond the capacity; never a longer name.
    arg = (convention, justify, which) with which in {'column','node'}."""
    convention, left, which = arg
    fname = 'mulgrids.mulgrid.%s_name_from_number' % which
    hi = 20000
    def prog(e):
        g = _geo(e, convention)
        jf = L.STR_METHODS['ljust' if left else 'rjust']
        a = e.sym_int('a', 1, hi)
        b = e.sym_int('b', 1, hi)
        e.assume(a < b)
        names = []
        for x in (a, b):
            try:
                nm = e.call(e.get_function(fname), [g, x, jf])
                raised = False
            except PyExc as ex:
                if ex.cls != 'NamingConventionError':
                    e.fail('safety:%s[conv%d]' % (which, convention), 'unexpected %s' % ex.cls)
                    return
                nm, raised = None, True
            cap = CAP[convention]
            tag = '%s,conv%d,%s' % (which, convention, 'l' if left else 'r')
            if raised:
                e.prove(x > cap, 'raises:naming_error_only_beyond_capacity[%s]' % tag)
            else:
                e.prove(x <= cap, 'raises:naming_error_beyond_capacity[%s]' % tag)
                e.prove(L.b_len.fn(e, nm) == g.fields['colname_length'], 'post:name_length[%s]' % tag)
            names.append(nm)
        if names[0] is not None and names[1] is not None:
            e.prove(z_not(eq(e, names[0], names[1])), 'lemma:names_injective[%s]' % ('%s,conv%d,%s' % (which, convention, 'l' if left else 'r')))
    e.explore(prog, 'column_names')


def p_layer_names(e, arg):
    convention, left = arg
    hi = 20000
    def prog(e):
        g = _geo(e, convention)
        jf = L.STR_METHODS['ljust' if left else 'rjust']
        a = e.sym_int('a', 1, hi)
        b = e.sym_int('b', 1, hi)
        e.assume(a < b)
        names = []
        tag = 'layer,conv%d,%s' % (convention, 'l' if left else 'r')
        for x in (a, b):
            try:
                nm = e.call(e.get_function('mulgrids.mulgrid.layer_name_from_number'), [g, x, jf])
                raised = False
            except PyExc as ex:
                if ex.cls != 'NamingConventionError':
                    e.fail('safety:layer[conv%d]' % convention, 'unexpected %s' % ex.cls)
                    return
                nm, raised = None, True
            cap = LAYCAP[convention]
            if raised:
                e.prove(x > cap, 'raises:naming_error_only_beyond_capacity[%s]' % tag)
            else:
                e.prove(x <= cap, 'raises:naming_error_beyond_capacity[%s]' % tag)
                e.prove(L.b_len.fn(e, nm) == g.fields['layername_length'], 'post:name_length[%s]' % tag)
            names.append(nm)
        if names[0] is not None and names[1] is not None:
            e.prove(z_not(eq(e, names[0], names[1])), 'lemma:names_injective[%s]' % tag)
    e.explore(prog, 'layer_names')


def p_int_to_chars_custom(e, arg):
    """int_to_chars over a custom alphabet of n distinct symbolic letters: injective for
    numbers up to hi, with spaces (bijective numeration) and without (padded)."""
    n, spaces, length = arg
    def prog(e):
        chars = e.sym_str('chars', length=n, alphabet=string.ascii_letters)
        cs = SymStr.of(chars)
        for i in range(n):
            for j in range(i + 1, n):
                e.assume(cs.chars[i] != cs.chars[j])
        hi = n + n * n + n ** 3
        a = e.sym_int('a', 1, hi)
        b = e.sym_int('b', 1, hi)
        e.assume(a < b)
        f = e.get_function('mulgrids.int_to_chars')
        ra = e.call(f, [a], {'chars': chars, 'spaces': spaces, 'length': length})
        rb = e.call(f, [b], {'chars': chars, 'spaces': spaces, 'length': length})
        tag = 'n=%d,spaces=%s,length=%d' % (n, spaces, length)
        e.prove(z_not(eq(e, ra, rb)), 'lemma:int_to_chars_injective[%s]' % tag)
        la = L.b_len.fn(e, ra)
        e.prove(z_and(la >= 1, la <= 3) if spaces else (la >= length), 'post:int_to_chars_length[%s]' % tag)
    e.explore(prog, 'int_to_chars_custom')


PROGRAMS = [('p_fix_idempotent', None), ('p_unfix_simulator_form', None), ('p_cycle_stable', None),
            ('p_unfix_frame', None)]
PROGRAMS += [('p_block_name_inverse', c) for c in range(4)]
PROGRAMS += [('p_column_names', (c, left, which)) for c in range(4) for left in (False, True)
             for which in ('column', 'node')]
PROGRAMS += [('p_layer_names', (c, left)) for c in range(4) for left in (False, True)]
PROGRAMS += [('p_int_to_chars_custom', (3, True, 0)), ('p_int_to_chars_custom', (3, False, 3))]


def p_constructed_names(e, arg):
    """A geometry built by the real mulgrid.rectangular (run by the executor, symbolic spacings and origin): all block names
    are distinct five-character strings, the column part and the layer part of every block name give back the column and
    layer it was built from, generated column / layer / node names have the convention's length and are distinct."""
    (nx, ny, nz), conv, atm, justify, case = arg
    tag = '[%dx%dx%d,conv%d,atm%d,%s,%s]' % (nx, ny, nz, conv, atm, justify, case)
    def prog(e):
        m = e.load_module('mulgrids').globals
        dx = [e.sym_real('dx%d' % k) for k in range(nx)]; dy = [e.sym_real('dy%d' % k) for k in range(ny)]; dz = [e.sym_real('dz%d' % k) for k in range(nz)]
        for v in dx + dy + dz:
            e.assume(v > 0)
        try:
            geo = e.call(e.getattr(e.call(m['mulgrid'], []), 'rectangular'), [dx, dy, dz],
                         {'atmos_type': atm, 'convention': conv, 'justify': justify, 'case': case, 'origin': [e.sym_real('ox'), e.sym_real('oy'), e.sym_real('oz')]})
        except PyExc as ex:
            e.fail('post:constructor_completes' + tag, 'raises %s: %s' % (ex.cls, ex.msg)); return
        f = geo.fields
        names = f['block_name_list']
        natm = {0: 1, 1: nx * ny, 2: 0}[atm]
        e.prove(len(names) == natm + nx * ny * nz and len(set(names)) == len(names) and all(isinstance(n, str) and len(n) == 5 for n in names), 'post:block_names_are_distinct_five_character_strings' + tag)
        ok = True
        k = natm
        cl, ll = {0: (3, 2), 1: (2, 3), 2: (3, 2), 3: (3, 2)}[conv]
        # layer-major order of the default block order: for every layer, every column
        for lay in f['layerlist'][1:]:
            for col in f['columnlist']:
                nm = names[k]; k += 1
                ok = ok and e.call(e.getattr(geo, 'column_name'), [nm]) == col.fields['name'] and e.call(e.getattr(geo, 'layer_name'), [nm]) == lay.fields['name'] and \
                    e.call(e.getattr(geo, 'block_name'), [lay.fields['name'], col.fields['name']]) == nm
        e.prove(ok, 'post:column_and_layer_parts_of_a_block_name_give_back_its_column_and_layer' + tag)
        cn = [c.fields['name'] for c in f['columnlist']]; ln = [l.fields['name'] for l in f['layerlist']]; nn = [n.fields['name'] for n in f['nodelist']]
        e.prove(len(set(cn)) == len(cn) and len(set(ln)) == len(ln) and len(set(nn)) == len(nn) and all(len(x) == f['colname_length'] for x in cn + nn) and all(len(x) == f['layername_length'] for x in ln),
                'post:generated_names_distinct_and_of_the_convention_length' + tag)
    e.explore(prog, 'constructed_names')


def p_capacity(e, arg):
    """The real constructor at the capacity limits of a naming convention: it completes with distinct well-formed names exactly
    when the numbers of nodes, columns and layers fit the convention's name space, and raises NamingConventionError (nothing
    else, no truncated or duplicate name) when they do not."""
    (nx, ny, nz), conv = arg
    tag = '[%dx%dx%d,conv%d]' % (nx, ny, nz, conv)
    letters3, letters2 = 26 + 26 ** 2 + 26 ** 3, 26 + 26 ** 2
    cap_col, cap_lay = {0: (letters3, 99), 1: (99, letters3), 2: (999, letters2), 3: (letters3, letters2)}[conv]
    fits = (nx + 1) * (ny + 1) <= cap_col and nx * ny <= cap_col and nz <= cap_lay
    def prog(e):
        m = e.load_module('mulgrids').globals
        dx = [e.sym_real('dx%d' % k) for k in range(nx)]; dy = [e.sym_real('dy%d' % k) for k in range(ny)]; dz = [e.sym_real('dz%d' % k) for k in range(nz)]
        for v in dx + dy + dz:
            e.assume(v > 0)
        try:
            geo = e.call(e.getattr(e.call(m['mulgrid'], []), 'rectangular'), [dx, dy, dz], {'atmos_type': 0, 'convention': conv})
        except PyExc as ex:
            e.prove(ex.cls == 'NamingConventionError' and not fits, 'post:naming_error_exactly_when_the_name_space_is_exhausted' + tag, 'raises %s: %s' % (ex.cls, ex.msg))
            return
        e.prove(fits, 'post:naming_error_exactly_when_the_name_space_is_exhausted' + tag, 'completed although the name space is exhausted')
        f = geo.fields
        names = f['block_name_list']
        cn = [c.fields['name'] for c in f['columnlist']]; ln = [l.fields['name'] for l in f['layerlist']]; nn = [n.fields['name'] for n in f['nodelist']]
        e.prove(len(names) == 1 + nx * ny * nz and len(set(names)) == len(names) and all(len(n) == 5 for n in names) and
                len(set(cn)) == len(cn) and len(set(ln)) == len(ln) and len(set(nn)) == len(nn) and all(len(x) == f['colname_length'] for x in cn + nn) and all(len(x) == f['layername_length'] for x in ln),
                'post:names_distinct_and_well_formed_at_the_capacity_limit' + tag)
    e.explore(prog, 'capacity')


CAPACITY = [((48, 1, 2), 1), ((49, 1, 2), 1), ((99, 1, 2), 1), ((100, 1, 2), 2), ((2, 1, 99), 0), ((2, 1, 100), 0), ((2, 1, 27), 3), ((9, 10, 2), 1), ((10, 10, 2), 1)]
PROGRAMS += [('p_capacity', a) for a in CAPACITY]
PROGRAMS += [('p_constructed_names', (shape, conv, atm, j, c)) for shape in ((3, 2, 3), (12, 1, 2)) for conv in range(4) for atm in (0, 1, 2) for (j, c) in (('r', None), ('l', 'u'))]


# ---- native replay -----------------------------------------------------------------------

def replay(obname, model, result):
    m = model or {}
    if result['program'] == 'p_capacity':
        (nx, ny, nz), conv = result['arg']
        return ("from mulgrids import *\nletters3, letters2 = 26 + 26 ** 2 + 26 ** 3, 26 + 26 ** 2\n"
                "nx, ny, nz, conv = %d, %d, %d, %d\ncap_col, cap_lay = {0: (letters3, 99), 1: (99, letters3), 2: (999, letters2), 3: (letters3, letters2)}[conv]\n"
                "fits = (nx + 1) * (ny + 1) <= cap_col and nx * ny <= cap_col and nz <= cap_lay\n"
                "try:\n    g = mulgrid().rectangular([10.] * nx, [8.] * ny, [5.] * nz, convention=conv, atmos_type=0)\n"
                "    n = g.block_name_list; ok = fits and len(set(n)) == len(n) and all(len(x) == 5 for x in n); detail = 'completed with %%d names, name space %%s' %% (len(n), 'sufficient' if fits else 'exhausted')\n"
                "except NamingConventionError as ex:\n    ok, detail = (not fits), 'NamingConventionError: %%s (name space %%s)' %% (ex, 'sufficient' if fits else 'exhausted')\n"
                "except Exception as ex:\n    ok, detail = False, '%%s: %%s' %% (type(ex).__name__, ex)\n") % (nx, ny, nz, conv)
    if result['program'] == 'p_constructed_names':
        (nx, ny, nz), conv, atm, justify, case = result['arg']
        return ("from mulgrids import *\ng = mulgrid().rectangular([10. + k for k in range(%d)], [8. + k for k in range(%d)], [5. + k for k in range(%d)], convention=%d, atmos_type=%d, justify=%r, case=%r)\n"
                "n = g.block_name_list\nok = len(set(n)) == len(n) and all(len(x) == 5 for x in n)\nk = g.num_atmosphere_blocks\n"
                "for lay in g.layerlist[1:]:\n    for col in g.columnlist:\n        ok = ok and g.column_name(n[k]) == col.name and g.layer_name(n[k]) == lay.name; k += 1\n"
                "detail = str(n[:12])\n") % (nx, ny, nz, conv, atm, justify, case)
    prog = result['program']
    arg = result['arg']
    if prog in ('p_fix_idempotent', 'p_cycle_stable', 'p_unfix_frame') and 'name' in m:
        return ("from mulgrids import fix_blockname as f, unfix_blockname as u\n"
                "n = %r\n"
                "c = lambda x: f(u(x))\n"
                "checks = {'lemma:fix_idempotent': f(f(n)) == f(n),\n"
                " 'post:fix_frame': len(f(n)) == 5 and all(f(n)[k] == n[k] for k in (0,1,2,4)),\n"
                " 'post:fix_only_blank_to_zero': f(n)[3] == n[3] or (n[3] == ' ' and f(n)[3] == '0'),\n"
                " 'lemma:cycle_stable': c(c(n)) == c(n), 'post:cycle_length5': len(c(n)) == 5,\n"
                " 'post:unfix_length5': len(u(n)) == 5,\n"
                " 'post:unfix_frame': len(u(n)) == 5 and all(u(n)[k] == n[k] for k in (0,1,2,4)),\n"
                " 'post:unfix_only_zero_to_blank': len(u(n)) == 5 and (u(n)[3] == n[3] or (n[3] == '0' and u(n)[3] == ' '))}\n"
                "ok = checks[%r]\n"
                "detail = 'name=%%r fix=%%r unfix=%%r cycle=%%r' %% (n, f(n), u(n), c(n))\n") % (m['name'], obname)
    if prog == 'p_unfix_simulator_form' and 'a3' in m:
        return ("from mulgrids import fix_blockname as f, unfix_blockname as u\n"
                "n = '%%3s%%2d' %% (%r, %r)\n"
                "fx = f(n)\n"
                "checks = {'lemma:unfix_returns_simulator_form': u(fx) == n,\n"
                " 'post:fix_repairs_quirk': not (fx[2].isdigit() and fx[4].isdigit() and fx[3] == ' ')}\n"
                "ok = checks[%r]\n"
                "detail = 'printed=%%r fix=%%r unfix(fix)=%%r' %% (n, fx, u(fx))\n") % (m['a3'], m['i'], obname)
    if prog == 'p_block_name_inverse' and 'col' in m:
        return ("from mulgrids import mulgrid\n"
                "g = mulgrid(convention=%d)\n"
                "col, lay = %r, %r\n"
                "b = g.block_name(lay, col)\n"
                "ok = len(b) == 5 and g.column_name(b) == col and g.layer_name(b) == lay\n"
                "detail = 'block_name(%%r,%%r)=%%r -> column %%r layer %%r' %% (lay, col, b, g.column_name(b), g.layer_name(b))\n") % (arg, m['col'], m['lay'])
    if prog in ('p_column_names', 'p_layer_names') and 'a' in m:
        if prog == 'p_column_names':
            conv, left, which = arg
            fn = '%s_name_from_number' % which
            cap, ln = CAP[conv], 'colname_length'
        else:
            conv, left = arg
            fn, cap, ln = 'layer_name_from_number', LAYCAP[conv], 'layername_length'
        return ("from mulgrids import mulgrid, NamingConventionError\n"
                "g = mulgrid(convention=%d)\n"
                "jf = str.ljust if %r else str.rjust\n"
                "def nm(x):\n"
                "    try: return g.%s(x, jf)\n"
                "    except NamingConventionError: return None\n"
                "a, b, cap = %d, %d, %d\n"
                "na, nb = nm(a), nm(b)\n"
                "ok = all(((n is None) == (x > cap)) and (n is None or len(n) == g.%s) for x, n in ((a, na), (b, nb)))\n"
                "ok = ok and (na is None or nb is None or na != nb)\n"
                "detail = 'names %%r %%r for %%d %%d (capacity %%d)' %% (na, nb, a, b, cap)\n") % (conv, left, fn, m['a'], m['b'], cap, ln)
    if prog == 'p_int_to_chars_custom' and 'a' in m:
        n, spaces, length = arg
        return ("from mulgrids import int_to_chars\n"
                "chars, a, b = %r, %d, %d\n"
                "ra = int_to_chars(a, chars=chars, spaces=%r, length=%d)\n"
                "rb = int_to_chars(b, chars=chars, spaces=%r, length=%d)\n"
                "ok = ra != rb\n"
                "detail = '%%r %%r' %% (ra, rb)\n") % (m['chars'], m['a'], m['b'], spaces, length, spaces, length)
    return None
