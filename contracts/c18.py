"""C18 - t2grid.rectgeo (the real method with all its nested functions, run by the executor) on the grid fromgeo()
builds from a real rectangular geometry with symbolic origin, spacings and surfaces: spacings, position, orientation
(angle 0), surfaces, atmosphere arrangement and the block-name map are recovered.  match_position runs for real: for an
unrotated geometry asin(1) = pi/2 exactly, the heading is pi/2, the angle 0.5*pi - pi/2 = 0 and the rotation the identity
(pi is one real constant); rotated originals are bounded."""
import z3
from pyvc.engine import Obj, NVec
from pyvc import library as L
from pyvc.values import PyExc, Unsupported, to_real
from contracts.c04 import build_rect, _valid

FUNCS = ['t2grids.t2grid.rectgeo', 't2grids.t2grid.rectgeo.block_spacings', 't2grids.t2grid.rectgeo.block_direction_track', 't2grids.t2grid.rectgeo.next_block_in_direction',
         't2grids.t2grid.rectgeo.find_origin_block', 't2grids.t2grid.rectgeo.topmost_block', 't2grids.t2grid.rectgeo.block_mapping', 't2grids.t2grid.rectgeo.find_surface',
         'mulgrids.mulgrid.snap_columns_to_layers']


def p_rectgeo(e, arg):
    nx, ny, nz, atm, convention, nsurf = arg[:6]
    onelayer = len(arg) > 6 and arg[6] == 'onelayer'
    rot = arg[6] if len(arg) > 6 and isinstance(arg[6], int) else 0          # the original rotated clockwise by a multiple of 90 degrees
    singlex = len(arg) > 6 and arg[6] == 'singlex'       # a single block in the x direction: the recorded finding (match_position divides by zero)
    bc = arg[6] if len(arg) > 6 and arg[6] in BOUNDARY else None    # inactive boundary blocks attached to the generated grid the way a modeller does
    tag = '[%dx%dx%d,atm%d,conv%d,%d surfaces%s]' % (tuple(arg[:6]) + (',onelayer' if onelayer else (',single x' if singlex else (',rotated %d' % rot if rot else (',boundary %s' % bc if bc else ''))),))
    def prog(e):
        geo, S = build_rect(e, nx, ny, nz, atm, 0, nsurf, origin=[e.sym_real('ox'), e.sym_real('oy'), e.sym_real('oz')])
        snap = z3.RealVal('1/10')
        # the quantifier: surfaces leave at least the bottom layer complete; layers and surface blocks thicker than layer_snap
        for k in range(min(nsurf, nx * ny)):
            if onelayer:      # the column consists of (part of) the bottom layer only - the recorded finding
                e.assume(S['surf'][k] <= S['tops'][-1])
            else:             # the column keeps at least two layers
                e.assume(S['surf'][k] > S['tops'][-1])
            e.assume(S['surf'][k] <= S['org'][2])
            for b in S['bottoms']:
                e.assume(z3.Or(S['surf'][k] <= b, S['surf'][k] - b >= snap))
        for d in S['dz']:
            e.assume(d >= snap)
        for d in S['dx'] + S['dy'] + S['dz']:
            e.assume(d <= 1000000)              # every block is an active block: volume below atmos_volume = 1e25
        if rot:
            # sin / cos are exact at quarter turns; the permeability directions turn with the geometry
            e.call(e.getattr(geo, 'rotate'), [rot, NVec([e.sym_real('rcx'), e.sym_real('rcy')])])
            geo.fields['permeability_angle'] = -rot
        e.assume(geo.fields['atmosphere_volume'] >= 10 ** 25)      # atmosphere blocks are not active blocks (volume >= atmos_volume)
        tg = e.load_module('t2grids').globals
        grid = e.call(e.getattr(e.call(tg['t2grid'], []), 'fromgeo'), [geo])
        own_blocks = [b.fields['name'] for b in grid.fields['blocklist']]
        if bc:
            attach_boundary(e, tg, geo, grid, bc)
        try:
            geo2, bm = e.call(e.getattr(grid, 'rectgeo'), [], {'atmos_type': atm, 'convention': convention})
        except PyExc as ex:
            e.fail('post:rectgeo_completes' + tag, 'raises %s: %s' % (ex.cls, ex.msg)); return
        e.prove(True, 'post:rectgeo_completes' + tag)
        f2 = geo2.fields
        # spacings in the three directions
        lays = f2['layerlist']
        okz = len(lays) == nz + 1 and _valid(e, to_real(lays[0].fields['bottom']) == to_real(S['org'][2])) and all(_valid(e, to_real(l.fields['top']) - to_real(l.fields['bottom']) == S['dz'][k]) for k, l in enumerate(lays[1:]))
        e.prove(okz, 'post:same_layer_thicknesses' + tag)
        cols2 = f2['columnlist']
        cols1 = geo.fields['columnlist']
        okxy = len(cols2) == nx * ny
        if okxy:
            for ci, c in enumerate(cols2):
                i, j = ci % nx, ci // nx
                p2 = [(to_real(n.fields['pos'].items[0]), to_real(n.fields['pos'].items[1])) for n in c.fields['node']]
                p1 = [(to_real(n.fields['pos'].items[0]), to_real(n.fields['pos'].items[1])) for n in cols1[ci].fields['node']]
                # the same corner points as the original column (which the constructor put at the rectangle of its spacings)
                okxy = okxy and len(p1) == len(p2) and _valid(e, z3.And(*[z3.Or(*[z3.And(x == u, y == v) for (u, v) in p1]) for (x, y) in p2] +
                                                                       [z3.Or(*[z3.And(x == u, y == v) for (x, y) in p2]) for (u, v) in p1] +
                                                                       [to_real(c.fields['area']) == S['dx'][i] * S['dy'][j]]))
                if not rot:
                    x0 = S['org'][0] + sum(S['dx'][:i]); y0 = S['org'][1] + sum(S['dy'][:j])
                    okxy = okxy and _valid(e, z3.And(*[z3.And(z3.Or(x == x0, x == x0 + S['dx'][i]), z3.Or(y == y0, y == y0 + S['dy'][j])) for (x, y) in p2]))
        e.prove(okxy, 'post:same_horizontal_spacings_and_position' + tag)
        pa = f2['permeability_angle']
        want = -rot
        e.prove(any(pa == want + 360 * k or (not isinstance(pa, (int, float)) and _valid(e, to_real(pa) == want + 360 * k)) for k in (-1, 0, 1)), 'post:same_orientation' + tag)
        oks = okxy and all(_valid(e, to_real(e.getattr(c, 'surface')) == to_real(S['surf'][ci])) for ci, c in enumerate(cols2))
        e.prove(oks, 'post:same_column_surface_elevations' + tag)
        e.prove(f2['_atmosphere_type'] == atm and f2['_convention'] == convention, 'post:requested_atmosphere_arrangement_and_convention' + tag)
        # under the block-name map, a grid generated from the reconstructed geometry reproduces names, volumes and connections
        try:
            grid2 = e.call(e.getattr(e.call(tg['t2grid'], []), 'fromgeo'), [geo2, bm])
        except PyExc as ex:
            e.fail('post:regenerated_grid_reproduces_names_volumes_connections' + tag, 'fromgeo raises %s: %s' % (ex.cls, ex.msg)); return
        g1, g2 = grid.fields, grid2.fields
        bad = []
        # the inactive boundary blocks are not part of the geometry: the grid generated from the geometry is compared
        n1 = own_blocks; n2 = [b.fields['name'] for b in g2['blocklist']]
        if set(n1) != set(n2) or len(n1) != len(n2):
            bad.append('block names %r regenerated as %r' % (n1, n2))
        else:
            natm = {0: 1, 1: nx * ny, 2: 0}[atm]
            for nm in n1:
                b1, b2 = g1['block'][nm], g2['block'][nm]
                if nm in [b.fields['name'] for b in g1['blocklist'][:natm]]:
                    continue             # atmosphere volume is a parameter of rectgeo, not recovered from the grid
                if not _valid(e, to_real(b1.fields['volume']) == to_real(b2.fields['volume'])):
                    bad.append('block %r volume %s regenerated as %s' % (nm, b1.fields['volume'], b2.fields['volume']))
            k1 = dict((frozenset(b.fields['name'] for b in c.fields['block']), c) for c in g1['connectionlist'] if all(b.fields['name'] in own_blocks for b in c.fields['block']))
            k2 = dict((frozenset(b.fields['name'] for b in c.fields['block']), c) for c in g2['connectionlist'])
            if set(k1) != set(k2):
                bad.append('connections %r regenerated as %r' % (sorted(tuple(sorted(k)) for k in k1), sorted(tuple(sorted(k)) for k in k2)))
            else:
                for k in k1:
                    c1, c2 = k1[k], k2[k]
                    same_order = [b.fields['name'] for b in c1.fields['block']] == [b.fields['name'] for b in c2.fields['block']]
                    d1 = [to_real(x) for x in c1.fields['distance']]; d2 = [to_real(x) for x in (c2.fields['distance'] if same_order else c2.fields['distance'][::-1])]
                    isatm = any(n in [b.fields['name'] for b in g1['blocklist'][:natm]] for n in k)
                    conds = [to_real(c1.fields['area']) == to_real(c2.fields['area']), d1[0] == d2[0]] + ([] if isatm else [d1[1] == d2[1]])
                    if not _valid(e, z3.And(*conds)):
                        bad.append('connection %r area %s distances %s regenerated as %s / %s' % (tuple(sorted(k)), c1.fields['area'], c1.fields['distance'], c2.fields['area'], c2.fields['distance']))
        if bad:
            e.fail('post:regenerated_grid_reproduces_names_volumes_connections' + tag, '; '.join(bad[:3]))
        else:
            e.prove(True, 'post:regenerated_grid_reproduces_names_volumes_connections' + tag)
    e.explore(prog, 'rectgeo')


BOUNDARY = ('top-zero', 'top-huge', 'bottom-huge')


def attach_boundary(e, tg, geo, grid, bc):
    """Inactive boundary blocks (zero or huge volume, no centre) added to the generated grid through the real add_block /
    add_connection: one block on top of every column (atmosphere type 2 geometries) or one shared block under the bottom layer."""
    vol = 0. if bc.endswith('zero') else 1.e50
    rock = grid.fields['rocktypelist'][0]
    cols = geo.fields['columnlist']
    def newblock(k):
        b = e.call(tg['t2block'], ['Z%s%2d' % ('ABCDEFGHIJ'[(k // 99) % 10], k % 99 + 1), vol, rock])
        e.call(e.getattr(grid, 'add_block'), [b])
        return b
    if bc.startswith('top'):
        for k, col in enumerate(cols):
            lay = e.call(e.getattr(geo, 'column_surface_layer'), [col])
            blk = grid.fields['block'][e.call(e.getattr(geo, 'block_name'), [lay.fields['name'], col.fields['name']])]
            d = to_real(e.getattr(col, 'surface')) - to_real(blk.fields['centre'].items[2])
            con = e.call(tg['t2connection'], [[blk, newblock(k)], 3, [d, z3.RealVal('1/1000000')], col.fields['area'], -1.])
            e.call(e.getattr(grid, 'add_connection'), [con])
    else:
        b = newblock(0)
        lay = geo.fields['layerlist'][-1]
        for col in cols:
            blk = grid.fields['block'][e.call(e.getattr(geo, 'block_name'), [lay.fields['name'], col.fields['name']])]
            half = (to_real(lay.fields['top']) - to_real(lay.fields['bottom'])) / 2
            con = e.call(tg['t2connection'], [[b, blk], 3, [z3.RealVal('1/1000000'), half], col.fields['area'], 1.])
            e.call(e.getattr(grid, 'add_connection'), [con])


RECTS = [(2, 1, 2, 2, 0, 0), (2, 1, 2, 0, 0, 0), (2, 2, 2, 1, 0, 0), (2, 1, 3, 0, 0, 1), (3, 2, 2, 2, 1, 0), (2, 2, 3, 1, 2, 1), (2, 1, 3, 2, 3, 1), (2, 2, 2, 0, 0, 1),
         (2, 1, 2, 2, 3, 1, 'onelayer'), (1, 2, 2, 2, 0, 0, 'singlex'), (2, 2, 2, 2, 0, 0, 90), (2, 2, 2, 0, 0, 1, 180), (3, 2, 2, 1, 1, 0, 270),
         (2, 2, 2, 2, 0, 1, 'top-zero'), (2, 1, 3, 2, 0, 1, 'top-huge'), (2, 2, 2, 0, 0, 1, 'bottom-huge')]
PROGRAMS = [('p_rectgeo', r) for r in RECTS]


RECTS_THOROUGH = [(3, 3, 3, 0, 0, 2), (4, 2, 2, 1, 1, 1), (2, 3, 4, 2, 2, 2), (3, 1, 4, 0, 3, 2), (3, 1, 3, 1, 0, 1), (3, 3, 2, 2, 0, 0), (4, 1, 3, 0, 0, 2),
                  (3, 2, 3, 2, 1, 2, 'top-zero'), (2, 2, 3, 1, 0, 1, 'bottom-huge'), (2, 3, 2, 2, 2, 1, 'top-huge')]


def programs(tier):
    return PROGRAMS + ([('p_rectgeo', r) for r in RECTS_THOROUGH] if tier == 'thorough' else [])


def replay(obname, model, result):
    if result['program'] != 'p_rectgeo':
        return None
    return ("from contracts.c04_native import native_rectgeo\nok, detail = native_rectgeo(%r, %r)\n") % (tuple(result['arg']), model or {})
