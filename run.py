#!/usr/bin/env python3
"""Entry point:  run.py setup | check <ID> [--tier quick|thorough] | replay <file> | all [--tier ..] | selftest | crosscheck"""
import os
import sys
import json
import importlib

HERE = os.path.dirname(os.path.abspath(__file__))
sys.path.insert(0, HERE)


def setup():
    ok = True
    for p in ('/venv/bin/python', '/usr/bin/cvc5'):
        if not os.path.exists(p):
            print('missing', p); ok = False
    try:
        import z3, sympy, numpy  # noqa
    except Exception as e:
        print('tooling venv incomplete:', e); ok = False
    os.makedirs(os.path.join(HERE, 'evidence'), exist_ok=True)
    print('setup', 'ok' if ok else 'FAILED')
    return 0 if ok else 1


def check(pid, tier):
    os.environ['VERIF_TIER'] = tier
    mod = importlib.import_module('checks.%s' % pid.lower())
    return mod.main(tier)


def replay(path):
    from vlib.check import run_native
    d = json.load(open(path))
    print('property', d['property'], 'obligation', d['obligation'])
    print(d['what'])
    sn = d.get('replay', {}).get('snippet')
    if sn:
        r = run_native(sn)
        print('native replay on the current tree: ok=%s %s %s' % (r['ok'], r.get('exc') or '', r['detail'][:1000]))
        return 1 if r['ok'] is False else 0
    cmd = d.get('replay', {}).get('cmd')
    if cmd:
        return os.system(cmd) >> 8
    print('no input image: the failed obligation and the solver output are in the file')
    print(json.dumps(d.get('solver_output'), indent=1)[:2000])
    return 0


def main(argv):
    if len(argv) < 2:
        print(__doc__); return 2
    if argv[1] == 'setup':
        return setup()
    tier = os.environ.get('VERIF_TIER', 'quick')
    if '--tier' in argv:
        tier = argv[argv.index('--tier') + 1]
    if argv[1] == 'check':
        try:
            return check(argv[2], tier)
        except SystemExit:
            raise
        except BaseException as e:      # a crash of the machinery is an engine failure, never a verdict
            import traceback
            traceback.print_exc()
            print('ENGINE-FAILURE property=%s %r' % (argv[2], e))
            return 3
    if argv[1] == 'replay':
        return replay(argv[2])
    if argv[1] == 'selftest':
        return os.system('python3 %s' % os.path.join(HERE, 'tools', 'selftest.py')) >> 8
    if argv[1] == 'crosscheck':      # the executor against CPython on the constructor / editing / fromgeo paths
        return os.system('python3-vt %s' % os.path.join(HERE, 'tools', 'crosscheck.py')) >> 8
    if argv[1] == 'all':
        rc = 0
        for i in range(1, 21):
            pid = 'C%02d' % i
            if os.path.exists(os.path.join(HERE, 'checks', pid.lower() + '.py')):
                r = os.system('%s %s check %s --tier %s' % (sys.executable, os.path.join(HERE, 'run.py'), pid, tier)) >> 8
                print(pid, 'exit', r)
                rc = max(rc, r)
        return rc
    print(__doc__)
    return 2


if __name__ == '__main__':
    sys.exit(main(sys.argv))
