"""Differential-algebra generators for exact identities with sqrt, exp and rational powers:
GSqrt(e), GExp(e), GPow(e, q) are opaque atoms with the right derivatives; identities are
decided by replacing each atom by a symbol and reducing polynomially modulo s**2 == e."""
import sympy as sp
from .loader import SympyBackend


class GSqrt(sp.Function):
    nargs = 1
    def fdiff(self, argindex=1):
        return 1 / (2 * self)


class GExp(sp.Function):
    nargs = 1
    def fdiff(self, argindex=1):
        return self


class GPow(sp.Function):
    nargs = 2
    def fdiff(self, argindex=1):
        if argindex == 1:
            return self.args[1] * self / self.args[0]
        raise ValueError('exponent must be constant')


class GenBackend(SympyBackend):
    name = 'sympy-generators'
    def sqrt(self, x): return GSqrt(x)
    def exp(self, x): return GExp(x)
    def POW(self, a, b):
        b = sp.nsimplify(b) if not isinstance(b, (int, sp.Basic)) else b
        if isinstance(b, int) or (isinstance(b, sp.Basic) and b.is_Integer):
            return a ** b
        return GPow(a, sp.Rational(b))


def is_zero(expr):
    """Decide expr == 0 where expr is rational in symbols and generator atoms."""
    atoms = sorted(expr.atoms(GSqrt, GExp, GPow), key=lambda a: sp.count_ops(a))
    # innermost first: replace atoms by symbols (an atom's argument may contain other atoms)
    subs = []
    e = expr
    for i, a in enumerate(atoms):
        sym = sp.Symbol('g%d' % i)
        subs.append((a, sym))
    # substitute outermost first so that inner occurrences inside arguments are handled consistently
    mapping = {}
    for a, sym in reversed(subs):
        e = e.xreplace({a: sym})
    # arguments of the atoms, also expressed with the symbols
    rels = []
    for a, sym in subs:
        arg = a.args[0]
        for b, sb in reversed(subs):
            arg = arg.xreplace({b: sb})
        if isinstance(a, GSqrt):
            rels.append((sym, arg))
    num = sp.numer(sp.together(e))
    num = sp.expand(num)
    for sym, arg in reversed(rels):
        # reduce modulo sym**2 - arg  (arg may have a denominator: clear it)
        argn, argd = sp.fraction(sp.together(arg))
        num = sp.expand(sp.rem(sp.expand(num * 1), sp.expand(argd * sym ** 2 - argn), sym)) if True else num
    return sp.expand(num) == 0, len(atoms)
