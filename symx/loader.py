"""symx: run the REAL numeric functions of /repo over exact symbolic values.

On every run the module source is read from the repository, transformed mechanically and
executed with symbolic arguments (sympy expressions with exact rational coefficients, or
z3 reals).  The transformation (exhaustive list - everything else is the code as written):

  * every float literal x becomes the exact rational of its decimal text, Fraction(repr(x))
    (assumption A1: machine arithmetic is treated as mathematical, literals are decimal);
  * every comparison `a < b` is wrapped as _T(a < b); chained comparisons are split into a
    conjunction; _T passes Python bools through and, for a symbolic relation, records it as
    a path condition and follows a decision log (default: the relation holds);
  * `a ** b` becomes _POW(a, b) (the backend may keep a non-integer power as a generator);
  * `import numpy as np`, `from numpy import float64/nan`, `from math import ...` are
    replaced by shims: np.array / np.zeros build object arrays (or int lists), sqrt / exp /
    log are symbolic;
  * docstrings and print calls are kept (harmless).
"""
import ast
import os
import copy
import hashlib
from fractions import Fraction
import numpy as _np


class PathLog(object):
    def __init__(self, decisions=None):
        self.decisions = list(decisions or [])
        self.conditions = []     # (relation, taken)
        self.k = 0

    def decide(self, rel):
        d = self.decisions[self.k] if self.k < len(self.decisions) else True
        self.k += 1
        self.conditions.append((rel, d))
        return d


class _Transformer(ast.NodeTransformer):
    def visit_Constant(self, node):
        if isinstance(node.value, float):
            return ast.copy_location(ast.Call(func=ast.Name(id='_R', ctx=ast.Load()),
                                              args=[ast.Constant(value=repr(node.value))], keywords=[]), node)
        return node

    def visit_Compare(self, node):
        self.generic_visit(node)
        def wrap(n):
            return ast.Call(func=ast.Name(id='_T', ctx=ast.Load()), args=[n], keywords=[])
        if len(node.ops) == 1:
            if isinstance(node.ops[0], (ast.In, ast.NotIn, ast.Is, ast.IsNot)):
                return node
            return ast.copy_location(wrap(node), node)
        parts = []
        left = node.left
        for op, right in zip(node.ops, node.comparators):
            parts.append(wrap(ast.Compare(left=copy.deepcopy(left), ops=[op], comparators=[copy.deepcopy(right)])))
            left = right
        return ast.copy_location(ast.BoolOp(op=ast.And(), values=parts), node)

    def visit_BinOp(self, node):
        self.generic_visit(node)
        if isinstance(node.op, ast.Pow):
            return ast.copy_location(ast.Call(func=ast.Name(id='_POW', ctx=ast.Load()),
                                              args=[node.left, node.right], keywords=[]), node)
        return node

    def visit_Import(self, node):
        keep = [a for a in node.names if a.name.split('.')[0] not in ('numpy', 'Numeric')]
        if not keep:
            return ast.Pass()
        node.names = keep
        return node

    def visit_ImportFrom(self, node):
        if node.module and node.module.split('.')[0] in ('numpy', 'math', 'Numeric'):
            return ast.Pass()
        if node.module == '__future__':
            return ast.Pass()
        return node


class NPShim(object):
    """Minimal numpy replacement over exact / symbolic scalars."""
    float64 = object
    nan = float('nan')

    def __init__(self, backend):
        self.backend = backend
        self.linalg = self

    def array(self, x, dtype=None):
        x = list(x)
        if all(isinstance(v, int) and not isinstance(v, bool) for v in x) and dtype is None:
            return _np.array(x)
        a = _np.empty(len(x), dtype=object)
        for i, v in enumerate(x):
            a[i] = v
        return a

    def zeros(self, n, dtype=None):
        a = _np.empty(n, dtype=object)
        for i in range(n):
            a[i] = self.backend.R('0')
        return a

    def sum(self, x):
        return sum(list(x))

    def dot(self, a, b):
        return sum(x * y for x, y in zip(a, b))


class SympyBackend(object):
    name = 'sympy'

    def __init__(self):
        import sympy
        self.sp = sympy
        self.log = PathLog()

    def R(self, s):
        return self.sp.Rational(s)

    def T(self, c):
        if isinstance(c, (bool, _np.bool_)):
            return bool(c)
        if c is self.sp.true:
            return True
        if c is self.sp.false:
            return False
        return self.log.decide(c)

    def sqrt(self, x):
        return self.sp.sqrt(x)

    def exp(self, x):
        return self.sp.exp(x)

    def logf(self, x):
        return self.sp.log(x)


class Z3Backend(object):
    """Values are z3 Real terms; sqrt / exp introduce fresh constrained variables."""
    name = 'z3'

    def __init__(self):
        import z3
        self.z3 = z3
        self.log = PathLog()
        self.side = []        # side constraints (definitions of sqrt variables)
        self.domain = []      # obligations: argument of sqrt >= 0, denominators != 0 are left to the caller
        self.n = 0

    def R(self, s):
        fr = Fraction(s)
        return self.z3.RealVal(str(fr.numerator)) / self.z3.RealVal(str(fr.denominator)) if fr.denominator != 1 \
            else self.z3.RealVal(str(fr.numerator))

    def T(self, c):
        if isinstance(c, (bool, _np.bool_)):
            return bool(c)
        c = self.z3.simplify(c)
        if self.z3.is_true(c):
            return True
        if self.z3.is_false(c):
            return False
        return self.log.decide(c)

    def sqrt(self, x):
        self.n += 1
        y = self.z3.Real('sqrt!%d' % self.n)
        self.side.append(self.z3.And(y >= 0, y * y == x))
        self.domain.append(x >= 0)
        return y

    def exp(self, x):
        raise NotImplementedError('exp over z3 reals')

    def logf(self, x):
        raise NotImplementedError('log over z3 reals')


def load(modname, repo, backend, extra=None):
    """Execute the transformed source of <repo>/<modname>.py; returns (namespace, sha256)."""
    path = os.path.join(repo, modname + '.py')
    src = open(path).read()
    tree = ast.parse(src, path)
    tree = _Transformer().visit(tree)
    ast.fix_missing_locations(tree)
    np_shim = NPShim(backend)
    ns = {'__name__': 'symx_' + modname, '_R': backend.R, '_T': backend.T, '_POW': getattr(backend, 'POW', lambda a, b: a ** b), 'np': np_shim,
          'float64': object, 'nan': float('nan'), 'sqrt': backend.sqrt, 'exp': backend.exp,
          'log': backend.logf, 'norm': None}
    if extra:
        ns.update(extra)
    code = compile(tree, path, 'exec')
    exec(code, ns)
    # function-local "from math import log" statements were dropped: make sure the shims win
    ns.update({'sqrt': backend.sqrt, 'exp': backend.exp, 'log': backend.logf})
    return ns, hashlib.sha256(src.encode()).hexdigest()
